"""C18, VRPTW part - solve_vrptw states and every exported destroy/repair operator keep the bookkeeping of a
VRPState intact and the objective is the documented weighted sum (called by harness/props/C18.py: run_part).

Tie to /repo (working tree): the eight exported operators of solvor.vrp are called directly on states reached by
random operator sequences (starting from the solver's own initial state) with a recording `rng`; the states they
work on are instances of a subclass of VRPState whose copy() hands out routes that log every `insert(pos, cid)`.
From the rng answers, the logged insertions and the before/after difference the harness recovers the CHOICES the
operator made (which customers it removed, which customer went where) and replays them through the Gallina model
SV.C18.Vrp.apply_op inside coqc (vm_compute): after every operator the model's (routes, unassigned, arrival_times)
must equal the implementation's, and every choice must pass the guards under which invariant I is proved
(C18/VrpProofs*.v).  solve_vrptw is run end to end with the operators and `Random` wrapped the same way and compared
with the model SV.C18.Vrp.solve (ALNS loop included: result state and objective).
Independently of the model (a) a Python oracle written from the contract (partition, no repeat, single-vehicle
customers on one route, arrival times recomputed from scratch, objective recomputed from the documented weighted
sum) and (b) the Coq boolean `spec_chk` (sound w.r.t. vrp_spec, C18/VrpSpec.v) judge the implementation's states.
Two models, two correspondence lemmas per operator sequence:
 * vrp_trace  - SV.C18.Vrp.apply_op: ALL choices are oracle (rng answers, worst_removal's cost ranking, related/sync
   nearest neighbours, _insertion_cost feasibility and cheapest position, regret order, set iteration order); modelled
   as code: what the operators do with their choices (strip from every route, unassigned bookkeeping, partial/full
   arrival refresh), compute_arrival_times, vrp_objective, the alns accept/best logic.  A disagreement here means the
   BOOKKEEPING changed.
 * vrp_choice - SV.C18.VrpChoice.apply_fop: the choices are COMPUTED as vrp.py computes them (pure integer arithmetic
   on these instances); oracle is only what comes from outside the operator: rng.sample / choice / shuffle answers,
   rng.random() as the candidate index it selects in worst_removal, the iteration order of the Python set `unassigned`
   (logged by a set subclass), n_remove (float arithmetic on `degree`).  A disagreement only here means a heuristic
   (cost ranking, feasibility test, tie-break) changed while the bookkeeping model still agrees.
"""
import json
import random as _random
from math import isqrt

from harness.core import COQ, VERIF, Ctx, cbool, clist, cnat, copt, cz, guarded, pmap

ANCHORS = ["solvor/vrp.py", "solvor/lns.py"]
IMPORTS = "From SV Require Import C18.Vrp C18.VrpSpec C18.VrpChoice."

REMOVALS = ["random_removal", "worst_removal", "related_removal", "route_removal", "sync_removal"]
INSERTIONS = ["greedy_insertion", "regret_insertion", "sync_aware_insertion"]
OPS = REMOVALS + INSERTIONS
DEFAULT_W = {"distance_weight": 1, "vehicle_weight": 0, "tw_penalty": 1000, "capacity_penalty": 1000,
             "sync_penalty": 10000, "unassigned_penalty": 100000}


# ---------------------------------------------------------------- generators
def _int_dist(p, q):
    d2 = (p[0] - q[0]) ** 2 + (p[1] - q[1]) ** 2
    r = isqrt(d2)
    return r if r * r == d2 else None


def gen_points(rng, n):
    """depot + n customer locations with pairwise INTEGER Euclidean distances (collinear points, 3-4-5 / 5-12-13
    rectangles and whatever else the greedy completion finds on a 25 x 25 grid; co-located customers allowed)."""
    mode = rng.choice(["grid", "grid", "grid", "xline", "diag345", "same"])
    if mode == "xline":
        return [(rng.randint(-12, 12), 0) for _ in range(n + 1)]
    if mode == "diag345":
        ks = [rng.randint(-4, 4) for _ in range(n + 1)]
        return [(3 * k, 4 * k) for k in ks]
    if mode == "same":
        p = (rng.randint(-3, 3), rng.randint(-3, 3))
        return [p] * (n + 1)
    pts = [(rng.randint(-6, 6), rng.randint(-6, 6))]
    grid = [(x, y) for x in range(-12, 13) for y in range(-12, 13)]
    while len(pts) < n + 1:
        cand = [g for g in grid if all(_int_dist(g, p) is not None for p in pts)]
        far = [g for g in cand if g not in pts]
        pts.append(rng.choice(far if far and rng.random() < 0.85 else cand))
    return pts


def gen_inst(rng, big=False):
    n = rng.choice([3, 3, 4, 4, 5, 5, 6, 7] + ([8, 9] if big else []))
    pts = gen_points(rng, n)
    nveh = rng.choice([1, 2, 2, 3, 3])
    customers = []
    for i in range(1, n + 1):
        tw = rng.random() < 0.5
        a = rng.randint(0, 20)
        req = 1
        r = rng.random()
        if r < 0.3:
            req = 2
        elif r < 0.35:
            req = 3
        customers.append({"id": i, "x": pts[i][0], "y": pts[i][1], "demand": rng.randint(0, 6),
                          "tw_start": a if tw else 0, "tw_end": (a + rng.choice([0, 1, 3, 10, 30, 60])) if tw else None,
                          "service_time": rng.choice([0, 0, 1, 2, 5]), "required_vehicles": req})
    capv = [1, 3, 8, 20, 20, None, None]
    if rng.random() < 0.25:
        caps = [rng.choice(capv) for _ in range(nveh)]
    else:
        caps = [rng.choice(capv)] * nveh
    return {"depot": list(pts[0]), "customers": customers, "caps": caps,
            "floats": rng.random() < 0.5}  # feed the numbers as float (4.0) or as int (4)


def gen_weights(rng):
    if rng.random() < 0.5:
        return dict(DEFAULT_W)
    return {"distance_weight": rng.choice([1, 2, 7]), "vehicle_weight": rng.choice([0, 5, 50]),
            "tw_penalty": rng.choice([1000, 10, 1]), "capacity_penalty": rng.choice([1000, 3]),
            "sync_penalty": rng.choice([10000, 10, 1]), "unassigned_penalty": 100000}


def gen_plan(rng, nops):
    plan = [["greedy_insertion", {}]]  # _build_initial_solution
    last_removal = False
    for _ in range(nops):
        # mostly alternate destroy / repair (as ALNS does), sometimes two of a kind in a row
        name = rng.choice(INSERTIONS if last_removal else REMOVALS) if rng.random() < 0.7 else rng.choice(OPS)
        last_removal = name in REMOVALS
        if name in ("random_removal", "worst_removal", "related_removal"):
            params = {"degree": rng.choice([0.1, 0.2, 0.3, 0.3, 0.5, 1.0])}
        elif name == "route_removal":
            params = {"n_routes": rng.choice([1, 1, 1, 2, 3])}
        elif name == "regret_insertion":
            params = {"k": rng.choice([2, 2, 3])}
        else:
            params = {}
        plan.append([name, params])
    return plan


def gen_seq_case(rng, big=False):
    return {"kind": "vrp_seq", "inst": gen_inst(rng, big), "weights": gen_weights(rng), "seed": rng.randrange(10**6),
            "plan": gen_plan(rng, 30)}


def gen_solve_case(rng, big=False):
    w = gen_weights(rng)
    return {"kind": "vrp_solve", "inst": gen_inst(rng, big), "weights": w, "seed": rng.randrange(10**6),
            "max_iter": rng.choice([0, 1, 3, 10, 25, 25, 40, 40] + ([120] if big else [])),
            "max_no_improve": rng.choice([3, 10, 500, 500])}


# the witnesses of the property text / DESIGN.md (both defects are fixed in /repo: 3c6011c, 54303b2)
def _wit_inst(demand1, cap):
    return {"depot": [0, 0], "customers": [
        {"id": 1, "x": 1, "y": 0, "demand": demand1, "tw_start": 0, "tw_end": None, "service_time": 0, "required_vehicles": 2},
        {"id": 2, "x": 2, "y": 0, "demand": 1, "tw_start": 0, "tw_end": None, "service_time": 0, "required_vehicles": 1},
        {"id": 3, "x": 3, "y": 0, "demand": 1, "tw_start": 0, "tw_end": None, "service_time": 0, "required_vehicles": 1}],
        "caps": [cap, cap], "floats": False}


FIXED = [
    # customer 1 needs two vehicles: sync_aware_insertion then route_removal (each vehicle) then greedy_insertion
    {"kind": "vrp_seq", "inst": _wit_inst(1, 10), "weights": dict(DEFAULT_W), "seed": s, "from_empty": True,
     "plan": [["sync_aware_insertion", {}], ["route_removal", {"n_routes": 1}], ["greedy_insertion", {}],
              ["route_removal", {"n_routes": 1}], ["regret_insertion", {"k": 2}], ["sync_removal", {}],
              ["sync_aware_insertion", {}], ["route_removal", {"n_routes": 2}], ["sync_aware_insertion", {}]]}
    for s in range(4)
] + [
    # customer 1 (two vehicles, demand 5) fits no vehicle of capacity 1: must stay unassigned
    {"kind": "vrp_seq", "inst": _wit_inst(5, 1), "weights": dict(DEFAULT_W), "seed": 0, "from_empty": True,
     "plan": [["sync_aware_insertion", {}], ["random_removal", {"degree": 0.5}], ["sync_aware_insertion", {}],
              ["greedy_insertion", {}], ["sync_removal", {}], ["sync_aware_insertion", {}]]},
]


# ---------------------------------------------------------------- instance -> implementation objects
def _num(x, floats):
    return float(x) if floats else x


def build(vrp, inst):
    f = inst.get("floats", False)
    inf = float("inf")
    custs = [vrp.Customer(0, _num(inst["depot"][0], f), _num(inst["depot"][1], f))]
    for c in inst["customers"]:
        custs.append(vrp.Customer(c["id"], _num(c["x"], f), _num(c["y"], f), _num(c["demand"], f), _num(c["tw_start"], f),
                                  inf if c["tw_end"] is None else _num(c["tw_end"], f), _num(c["service_time"], f),
                                  c["required_vehicles"]))
    vehs = [vrp.Vehicle(i, inf if cap is None else _num(cap, f)) for i, cap in enumerate(inst["caps"])]
    return custs, vehs


def dist_matrix(inst):
    pts = [tuple(inst["depot"])] + [(c["x"], c["y"]) for c in inst["customers"]]
    return [[_int_dist(p, q) for q in pts] for p in pts]


def canon_num(x):
    if isinstance(x, bool):
        return x
    if isinstance(x, float) and x == x and abs(x) != float("inf") and x == int(x):
        return int(x)
    return x


def snapshot(st):
    return {"routes": [[int(c) for c in r] for r in st.routes], "unassigned": sorted(int(c) for c in set(st.unassigned)),
            "arrivals": [[canon_num(t) for t in a] for a in st.arrival_times]}


# ---------------------------------------------------------------- recording machinery (no source change)
class _Sink:
    ins = []    # (customer, vehicle, pos, route length before) per routes[v].insert
    rng = []    # ("sample"|"choice"|"shuffle"|"random", answer)
    iters = []  # iteration orders of the set `unassigned`, one per `for ... in state.unassigned` / list(...)
    depth = 0


class RecRandom:
    """What the operators and alns use of a random.Random - sample / choice / shuffle / random - delegated to a real
    Random(seed) (same stream as without recording) with every answer logged."""

    def __init__(self, seed=None):
        self._r = _random.Random(seed)

    def sample(self, population, k, **kw):
        r = self._r.sample(population, k, **kw)
        _Sink.rng.append(("sample", [int(x) for x in r]))
        return r

    def choice(self, seq):
        r = self._r.choice(seq)
        _Sink.rng.append(("choice", int(r) if isinstance(r, int) else r))
        return r

    def shuffle(self, x):
        self._r.shuffle(x)
        _Sink.rng.append(("shuffle", list(x)))

    def random(self):
        r = self._r.random()
        _Sink.rng.append(("random", r))
        return r


class RecSet(set):
    """`unassigned` with its iteration order logged (Python-level iteration only: `for c in s`, list(s), comprehensions)."""

    def __iter__(self):
        order = list(set.__iter__(self))
        _Sink.iters.append([int(c) for c in order])
        return iter(order)


class RecList(list):
    def insert(self, pos, c):
        _Sink.ins.append((int(c), self.veh, int(pos), len(self)))
        super().insert(pos, c)


_REC_CLS = {}


def rec_state_class(vrp):
    """Subclass of the working tree's VRPState whose copy() returns a state with insert-logging routes."""
    base = getattr(vrp.VRPState, "_verif_base", vrp.VRPState)
    if base in _REC_CLS:
        return _REC_CLS[base]

    class RecState(base):
        _verif_base = base

        def copy(self):
            s = base.copy(self)
            routes = []
            for v, r in enumerate(s.routes):
                rl = RecList(r)
                rl.veh = v
                routes.append(rl)
            return RecState(customers=s.customers, vehicles=s.vehicles, routes=routes, arrival_times=s.arrival_times,
                            unassigned=RecSet(s.unassigned), sync_assignments=s.sync_assignments, _dist=s._dist)

    _REC_CLS[base] = RecState
    return RecState


def call_op(vrp, orig, name, st, rng, args):
    """Run one exported operator, return (new_state, record)."""
    _Sink.ins, _Sink.rng, _Sink.iters = [], [], []
    pre = snapshot(st)
    new = orig(st, rng, *args)
    post = snapshot(new)
    rec = {"op": name, "args": list(args), "pre": pre, "post": post, "oracle": derive(name, pre, post, st.customers),
           "foracle": derive_f(name, pre, post, args)}
    _Sink.ins, _Sink.rng, _Sink.iters = [], [], []
    return new, rec


def derive_f(name, pre, post, args):
    """What the operator got from OUTSIDE (rng answers, set iteration orders, n_remove), for the choice-computing
    model SV.C18.VrpChoice.apply_fop."""
    diff = sorted(set(post["unassigned"]) - set(pre["unassigned"]))
    samples = [r for k, r in _Sink.rng if k == "sample"]
    choices = [r for k, r in _Sink.rng if k == "choice"]
    shuffles = [r for k, r in _Sink.rng if k == "shuffle"]
    randoms = [r for k, r in _Sink.rng if k == "random"]
    iters = [list(o) for o in _Sink.iters]
    if name == "random_removal":
        return {"sample": samples[0] if samples else []}
    if name == "worst_removal":
        n = sum(len(r) for r in pre["routes"])
        # idx = min(int(p * len(candidates)), len(candidates) - 1) with p = rng.random() ** 2, one candidate popped per draw
        return {"idxs": [min(int(p ** 2 * (n - j)), n - j - 1) for j, p in enumerate(randoms)]}
    if name == "related_removal":
        return {"nrem": len(diff), "seed": choices[0] if choices else 0}
    if name == "route_removal":
        return {"vs": samples[0] if samples else []}
    if name == "sync_removal":
        return {"target": choices[0] if choices else 0, "sample": samples[0] if samples else []}
    if name == "greedy_insertion":
        return {"order": shuffles[0] if shuffles else []}
    if name == "regret_insertion":
        return {"k": args[0] if args else 2, "orders": iters}
    return {"order": iters[1] if len(iters) > 1 else [], "orders": iters[2:]}


def derive(name, pre, post, customers):
    """The choices the operator made, in the form the model takes them."""
    diff = sorted(set(post["unassigned"]) - set(pre["unassigned"]))
    samples = [r for k, r in _Sink.rng if k == "sample"]
    choices = [r for k, r in _Sink.rng if k == "choice"]
    if name == "random_removal":
        return {"S": sorted(set(samples[0])) if samples else []}
    if name == "worst_removal":
        return {"S": diff}
    if name == "related_removal":
        if not choices:
            return {"S": []}
        return {"S": [choices[0]] + [c for c in diff if c != choices[0]]}
    if name == "route_removal":
        return {"vs": samples[0] if samples else []}
    if name == "sync_removal":
        if choices:
            return {"target": choices[0], "nearby": [c for c in diff if c != choices[0]]}
        if samples:  # fell through to random_removal
            s = sorted(set(samples[0]))
            return {"target": s[0], "nearby": s[1:]}
        return {"target": 0, "nearby": []}
    evs = [[c, v, p] for c, v, p, _ in _Sink.ins]
    if name in ("greedy_insertion", "regret_insertion"):
        return {"evs": evs}
    # sync_aware_insertion: first the multi-resource customers (all their vehicles), then regret_insertion of singles
    k = 0
    while k < len(evs) and customers[evs[k][0]].required_vehicles > 1:
        k += 1
    mevs = []
    for c, v, p in evs[:k]:
        if mevs and mevs[-1][0] == c:
            mevs[-1][1].append([v, p])
        else:
            mevs.append([c, [[v, p]]])
    return {"mevs": mevs, "evs": evs[k:]}


def _args(name, params):
    if name in ("random_removal", "worst_removal", "related_removal"):
        return (params["degree"],) if "degree" in params else ()
    if name == "route_removal":
        return (params["n_routes"],) if "n_routes" in params else ()
    if name == "regret_insertion":
        return (params["k"],) if "k" in params else ()
    return ()


# ---------------------------------------------------------------- implementation runs
def wkw(w):
    return {k: w[k] for k in DEFAULT_W}


def run_seq(case):
    """Operator sequence from the solver's initial state.  Stops at the first step the oracle rejects (a later
    operator would run on an inconsistent state, which is outside the contract)."""
    import importlib

    vrp = importlib.import_module("solvor.vrp")
    inst = case["inst"]
    out = {"steps": [], "bad": None, "init": None, "dist_ok": True}
    RecState = rec_state_class(vrp)
    custs, vehs = build(vrp, inst)
    res = guarded(RecState.from_problem, custs, vehs, timeout=5)
    if res[0] != "ok":
        out["bad"] = f"VRPState.from_problem: {res}"
        return out
    st = res[1]
    dm = dist_matrix(inst)
    out["dist_ok"] = st._dist is not None and all(canon_num(st._dist[i][j]) == dm[i][j] and canon_num(st.dist(i, j)) == dm[i][j]
                                                  for i in range(len(dm)) for j in range(len(dm)))
    out["init"] = snapshot(st)
    errs = check_state(inst, out["init"])
    if errs:
        out["bad"] = f"VRPState.from_problem: {errs[0]}"
        return out
    rng = RecRandom(case["seed"])
    for k, (name, params) in enumerate(case["plan"]):
        orig = getattr(vrp, name)
        res = guarded(call_op, vrp, orig, name, st, rng, _args(name, params), timeout=5)
        if res[0] != "ok":
            out["steps"].append({"op": name, "args": list(_args(name, params)), "pre": snapshot(st), "post": None, "oracle": None})
            out["bad"] = f"step {k} {name}{tuple(_args(name, params))}: implementation {res[0]} {res[1:]}"
            return out
        st, rec = res[1]
        r2 = guarded(vrp.vrp_objective, st, timeout=5, **wkw(case["weights"]))
        rec["obj"] = canon_num(r2[1]) if r2[0] == "ok" else None
        out["steps"].append(rec)
        errs = check_state(inst, rec["post"])
        if not errs and r2[0] != "ok":
            errs = [f"vrp_objective: {r2}"]
        if not errs:
            want = objective_formula(inst, case["weights"], rec["post"])
            if rec["obj"] != want:
                errs = [f"vrp_objective(state) = {rec['obj']} but the documented weighted sum of the state is {want}"]
        if errs:
            out["bad"] = f"step {k} after {name}{tuple(_args(name, params))} on routes {rec['pre']['routes']} unassigned {rec['pre']['unassigned']}: {errs[0]}"
            return out
    return out


def run_solve(case):
    """solve_vrptw end to end with the exported operators, VRPState and Random wrapped for recording."""
    import importlib

    lns = importlib.import_module("solvor.lns")  # `solvor.lns` the attribute is the function lns
    vrp = importlib.import_module("solvor.vrp")

    inst = case["inst"]
    out = {"bad": None, "records": [], "result": None, "acc": [], "iters": None}
    RecState = rec_state_class(vrp)
    custs, vehs = build(vrp, inst)
    records, keep = [], []
    origs = {name: getattr(vrp, name) for name in OPS}

    def wrap(name):
        orig = origs[name]

        def w(st, rng, *args):
            if _Sink.depth > 0:  # sync_removal -> random_removal, sync_aware_insertion -> regret_insertion
                return orig(st, rng, *args)
            _Sink.depth += 1
            try:
                new, rec = call_op(vrp, orig, name, st, rng, args)
            finally:
                _Sink.depth -= 1
            rec["pre_id"], rec["post_id"] = id(st), id(new)
            keep.extend([st, new])  # keep the objects alive: ids stay unique
            records.append(rec)
            return new

        return w

    saved = {"VRPState": vrp.VRPState, "vrpRandom": vrp.Random, "lnsRandom": lns.Random}
    try:
        for name in OPS:
            setattr(vrp, name, wrap(name))
        vrp.VRPState = RecState
        vrp.Random = RecRandom
        lns.Random = RecRandom
        w = case["weights"]
        res = guarded(vrp.solve_vrptw, custs[1:], vehs, (custs[0].x, custs[0].y),
                      distance_weight=w["distance_weight"], vehicle_weight=w["vehicle_weight"], tw_penalty=w["tw_penalty"],
                      capacity_penalty=w["capacity_penalty"], sync_penalty=w["sync_penalty"],
                      max_iter=case["max_iter"], max_no_improve=case["max_no_improve"], seed=case["seed"], timeout=30)
    finally:
        for name in OPS:
            setattr(vrp, name, origs[name])
        vrp.VRPState = saved["VRPState"]
        vrp.Random = saved["vrpRandom"]
        lns.Random = saved["lnsRandom"]
        _Sink.depth = 0
    out["records"] = [{k: v for k, v in r.items() if k not in ("pre_id", "post_id")} for r in records]
    if res[0] != "ok":
        out["bad"] = f"solve_vrptw: implementation {res[0]} {res[1:]}"
        return out
    r = res[1]
    sol = r.solution
    if not hasattr(sol, "routes"):
        out["bad"] = f"solve_vrptw: solution is {type(sol).__name__}"
        return out
    out["result"] = {"state": snapshot(sol), "objective": canon_num(r.objective), "status": r.status.name, "iterations": r.iterations}
    # accepted? = the next destroy operator was handed this iteration's candidate
    n_it = (len(records) - 1) // 2
    acc = []
    for i in range(n_it):
        cand_id = records[2 + 2 * i]["post_id"]
        nxt = records[3 + 2 * i]["pre_id"] if 3 + 2 * i < len(records) else None
        acc.append(nxt == cand_id)
    out["acc"] = acc
    out["shape_ok"] = len(records) >= 1 and len(records) % 2 == 1 and records[0]["op"] == "greedy_insertion" and \
        all(records[1 + 2 * i]["op"] in REMOVALS and records[2 + 2 * i]["op"] in INSERTIONS for i in range(n_it))
    # every state the search went through obeys the contract, and the result is honestly scored
    for k, rec in enumerate(out["records"]):
        errs = check_state(inst, rec["post"])
        if errs:
            out["bad"] = f"solve_vrptw: after operator call {k} ({rec['op']}) on routes {rec['pre']['routes']} unassigned {rec['pre']['unassigned']}: {errs[0]}"
            return out
    errs = check_state(inst, out["result"]["state"])
    if not errs:
        want = objective_formula(inst, w, out["result"]["state"])
        if out["result"]["objective"] != want:
            errs = [f"objective {out['result']['objective']} but the documented weighted sum of the returned state is {want}"]
    if errs:
        out["bad"] = f"solve_vrptw result: {errs[0]}"
    return out


# ---------------------------------------------------------------- independent oracle (the contract)
def arrivals_from_scratch(inst, route):
    """leave the depot at time 0, travel = Euclidean distance, wait until tw_start, arrival is recorded after
    waiting, then service_time, then travel to the next customer"""
    dm = dist_matrix(inst)
    cs = {c["id"]: c for c in inst["customers"]}
    out = []
    t, prev = 0, 0
    for c in route:
        t = max(t + dm[prev][c], cs[c]["tw_start"])
        out.append(t)
        t += cs[c]["service_time"]
        prev = c
    return out


def check_state(inst, snap):
    errs = []
    ids = [c["id"] for c in inst["customers"]]
    cs = {c["id"]: c for c in inst["customers"]}
    routes, un, arr = snap["routes"], snap["unassigned"], snap["arrivals"]
    nveh = len(inst["caps"])
    if len(routes) != nveh or len(arr) != nveh:
        return [f"{len(routes)} routes / {len(arr)} arrival lists for {nveh} vehicles"]
    if len(set(un)) != len(un):
        errs.append(f"unassigned has duplicates: {un}")
    for r in routes:
        for c in r:
            if c not in cs:
                errs.append(f"route {r} visits {c}, which is not a customer")
    for c in un:
        if c not in cs:
            errs.append(f"unassigned contains {c}, which is not a customer")
    if errs:
        return errs
    for cid in ids:
        on = [v for v, r in enumerate(routes) if cid in r]
        if cid in un and on:
            errs.append(f"customer {cid} is in unassigned AND on route(s) {on}")
        if cid not in un and not on:
            errs.append(f"customer {cid} is lost: neither in unassigned nor on a route")
        for v, r in enumerate(routes):
            if r.count(cid) > 1:
                errs.append(f"customer {cid} is {r.count(cid)} times on route {v}")
        if cs[cid]["required_vehicles"] <= 1 and len(on) > 1:
            errs.append(f"single-vehicle customer {cid} is on routes {on}")
    for v, r in enumerate(routes):
        want = arrivals_from_scratch(inst, r)
        if arr[v] != want:
            errs.append(f"arrival_times[{v}] = {arr[v]} but route {r} gives {want}")
    return errs


def objective_formula(inst, w, snap):
    """distance_weight * total distance + vehicle_weight * vehicles used + tw_penalty * total lateness
    + capacity_penalty * total overload + sync_penalty * sync violation + unassigned_penalty * #unassigned,
    sync violation of a multi-vehicle customer = 1000 per missing vehicle, else spread of its arrival times.
    Everything is recomputed from the routes (arrival times from scratch)."""
    dm = dist_matrix(inst)
    cs = {c["id"]: c for c in inst["customers"]}
    routes = snap["routes"]
    dist = 0
    for r in routes:
        path = [0] + list(r) + [0]
        dist += sum(dm[a][b] for a, b in zip(path, path[1:])) if r else 0
    used = sum(1 for r in routes if r)
    arr = [arrivals_from_scratch(inst, r) for r in routes]
    late = 0
    for r, a in zip(routes, arr):
        for c, t in zip(r, a):
            if cs[c]["tw_end"] is not None and t > cs[c]["tw_end"]:
                late += t - cs[c]["tw_end"]
    overload = 0
    for cap, r in zip(inst["caps"], routes):
        load = sum(cs[c]["demand"] for c in r)
        if cap is not None and load > cap:
            overload += load - cap
    sync = 0
    for cid, c in cs.items():
        req = c["required_vehicles"]
        if req <= 1:
            continue
        times = [a[r.index(cid)] for r, a in zip(routes, arr) if cid in r]
        if len(times) < req:
            sync += (req - len(times)) * 1000
        elif len(times) > 1:
            sync += max(times) - min(times)
    return (w["distance_weight"] * dist + w["vehicle_weight"] * used + w["tw_penalty"] * late + w["capacity_penalty"] * overload
            + w["sync_penalty"] * sync + w["unassigned_penalty"] * len(snap["unassigned"]))


# ---------------------------------------------------------------- Coq terms
def c_inst(inst):
    rows = [f"mkCust 0%Z 0%Z None 0%Z 1%nat"]
    for c in inst["customers"]:
        rows.append(f"mkCust {cz(c['demand'])} {cz(c['tw_start'])} {copt(c['tw_end'], cz)} {cz(c['service_time'])} {cnat(c['required_vehicles'])}")
    dm = dist_matrix(inst)
    return f"(mkInst {clist(rows)} {clist(dm, lambda r: clist(r, cz))} {clist(inst['caps'], lambda c: copt(c, cz))})"


def c_weights(w):
    return "(mkW " + " ".join(cz(w[k]) for k in ("distance_weight", "vehicle_weight", "tw_penalty", "capacity_penalty",
                                                 "sync_penalty", "unassigned_penalty")) + ")"


def snap_ok(snap):
    return all(isinstance(t, int) and not isinstance(t, bool) for a in snap["arrivals"] for t in a) and \
        all(c >= 0 for r in snap["routes"] for c in r) and all(c >= 0 for c in snap["unassigned"])


def c_state(snap):
    return (f"(mkSt {clist(snap['routes'], lambda r: clist(r, cnat))} {clist(snap['unassigned'], cnat)} "
            f"{clist(snap['arrivals'], lambda a: clist(a, cz))})")


def c_evs(evs):
    return clist(evs, lambda e: f"({cnat(e[0])}, {cnat(e[1])}, {cnat(e[2])})")


def c_op(rec):
    name, o = rec["op"], rec["oracle"]
    if name == "random_removal":
        return f"RandomRemoval {clist(o['S'], cnat)}"
    if name == "worst_removal":
        return f"WorstRemoval {clist(o['S'], cnat)}"
    if name == "related_removal":
        return f"RelatedRemoval {clist(o['S'], cnat)}"
    if name == "route_removal":
        return f"RouteRemoval {clist(o['vs'], cnat)}"
    if name == "sync_removal":
        return f"SyncRemoval {cnat(o['target'])} {clist(o['nearby'], cnat)}"
    if name == "greedy_insertion":
        return f"GreedyInsertion {c_evs(o['evs'])}"
    if name == "regret_insertion":
        return f"RegretInsertion {c_evs(o['evs'])}"
    mevs = clist(o["mevs"], lambda m: f"({cnat(m[0])}, {clist(m[1], lambda vp: f'({cnat(vp[0])}, {cnat(vp[1])})')})")
    return f"SyncAwareInsertion {mevs} {c_evs(o['evs'])}"


def c_fop(rec):
    name, o = rec["op"], rec["foracle"]
    ll = lambda xs: clist(xs, lambda x: clist(x, cnat))  # noqa: E731
    if name == "random_removal":
        return f"FRandomRemoval {clist(o['sample'], cnat)}"
    if name == "worst_removal":
        return f"FWorstRemoval {clist(o['idxs'], cnat)}"
    if name == "related_removal":
        return f"FRelatedRemoval {cnat(o['nrem'])} {cnat(o['seed'])}"
    if name == "route_removal":
        return f"FRouteRemoval {clist(o['vs'], cnat)}"
    if name == "sync_removal":
        return f"FSyncRemoval {cnat(o['target'])} {clist(o['sample'], cnat)}"
    if name == "greedy_insertion":
        return f"FGreedyInsertion {clist(o['order'], cnat)}"
    if name == "regret_insertion":
        return f"FRegretInsertion {cnat(o['k'])} {ll(o['orders'])}"
    return f"FSyncAwareInsertion {clist(o['order'], cnat)} {ll(o['orders'])}"


def c_ftrace_case(case, out):
    steps = clist([s for s in out["steps"] if s["post"] is not None], lambda s: f"({c_fop(s)}, {c_state(s['post'])})")
    return f"({c_inst(case['inst'])}, {c_state(out['init'])}, {steps})"


def c_trace_case(case, out):
    steps = clist([s for s in out["steps"] if s["post"] is not None], lambda s: f"({c_op(s)}, {c_state(s['post'])})")
    return f"({c_inst(case['inst'])}, {c_state(out['init'])}, {steps})"


def c_solve_case(case, out):
    recs = out["records"]
    n_it = (len(recs) - 1) // 2
    its = clist(range(n_it), lambda i: f"({c_op(recs[1 + 2 * i])}, {c_op(recs[2 + 2 * i])}, {cbool(out['acc'][i])})")
    return (f"({c_weights(case['weights'])}, {c_inst(case['inst'])}, {c_evs(recs[0]['oracle']['evs'])}, {its}, "
            f"{c_state(out['result']['state'])}, {cz(out['result']['objective'])})")


def c_spec_case(inst, w, snap, obj):
    return f"({c_weights(w)}, {c_inst(inst)}, {c_state(snap)}, {cz(obj)})"


# ---------------------------------------------------------------- shrinking / replay
def _seq_bad(case):
    return run_seq(case)["bad"]


def shrink_seq(case):
    """Cut the plan after the failing step, then drop earlier operators (not the initial greedy_insertion) and
    customers while it still fails."""
    import time

    deadline = time.time() + 30  # a hanging operator costs 5 s per attempt
    cur = json.loads(json.dumps(case))
    out = run_seq(cur)
    if not out["bad"]:
        return cur
    cur["plan"] = cur["plan"][:max(1, len(out["steps"]))]
    changed = True
    rounds = 0
    while changed and rounds < 40 and time.time() < deadline:
        changed = False
        rounds += 1
        first = 0 if cur.get("from_empty") else 1
        for k in range(first, len(cur["plan"]) - 1):
            if time.time() > deadline:
                break
            c = json.loads(json.dumps(cur))
            del c["plan"][k]
            if _seq_bad(c):
                cur, changed = c, True
                break
        if changed:
            continue
        n = len(cur["inst"]["customers"])
        if n > 1 and time.time() < deadline:
            c = json.loads(json.dumps(cur))
            c["inst"]["customers"].pop()  # ids stay 1..n-1
            if _seq_bad(c):
                o2 = run_seq(c)
                c["plan"] = c["plan"][:max(1, len(o2["steps"]))]
                cur, changed = c, True
    return cur


def replay(obj):
    from harness.core import use_repo

    use_repo()
    kind = obj.get("kind")
    if kind == "vrp_seq" and "inst" in obj:
        case = {"kind": "vrp_seq", "inst": obj["inst"], "weights": obj.get("weights", dict(DEFAULT_W)), "seed": obj.get("seed", 0),
                "plan": obj["plan"], "from_empty": obj.get("from_empty", False)}
        out = run_seq(case)
        print("instance:", json.dumps(case["inst"]))
        print("from VRPState.from_problem, rng = Random(%d); operators:" % case["seed"])
        for s in out["steps"]:
            print(f"  {s['op']}{tuple(s['args'])}: routes {s['pre']['routes']} unassigned {s['pre']['unassigned']} -> "
                  + (f"routes {s['post']['routes']} unassigned {s['post']['unassigned']} arrival_times {s['post']['arrivals']} objective {s.get('obj')}"
                     if s["post"] else "no result"))
        print("oracle verdict:", out["bad"] or "ok")
        return 1 if out["bad"] else 0
    if kind == "vrp_solve" and "inst" in obj:
        case = {"kind": "vrp_solve", "inst": obj["inst"], "weights": obj.get("weights", dict(DEFAULT_W)), "seed": obj.get("seed", 0),
                "max_iter": obj.get("max_iter", 25), "max_no_improve": obj.get("max_no_improve", 500)}
        out = run_solve(case)
        print("instance:", json.dumps(case["inst"]))
        print(f"solve_vrptw(customers, vehicles, depot, weights={case['weights']}, max_iter={case['max_iter']}, "
              f"max_no_improve={case['max_no_improve']}, seed={case['seed']})")
        print("result:", out["result"])
        print("oracle verdict:", out["bad"] or "ok")
        return 1 if out["bad"] else 0
    print("replay names an unchecked obligation:", obj.get("unchecked") or obj.get("what"))
    return 1


def _corpus():
    out = []
    d = VERIF / "corpus" / "C18"
    if d.exists():
        for f in sorted(d.glob("vrp_*.json")):
            o = json.loads(f.read_text())
            if o.get("kind") in ("vrp_seq", "vrp_solve"):
                out.append(o)
    return out


# ---------------------------------------------------------------- the check
def _seq_nontrivial(out):
    """a removal that removed something was followed by an insertion that placed something, and some state had a
    multi-vehicle customer on >= 2 routes or left unassigned"""
    removed = placed_after = False
    for s in out["steps"]:
        if s["post"] is None:
            continue
        if s["op"] in REMOVALS and set(s["post"]["unassigned"]) - set(s["pre"]["unassigned"]):
            removed = True
        if s["op"] in INSERTIONS and removed and set(s["pre"]["unassigned"]) - set(s["post"]["unassigned"]):
            placed_after = True
    return removed and placed_after


def run_part(ctx: Ctx):
    big = ctx.tier == "thorough"
    ctx.rule += (" | vrp: 3-7 customers (..9 thorough) on integer-distance layouts (collinear, 3-4-5 grids, co-located), time windows, "
                 "service times, demands 0-6, 1-3 vehicles, capacities 1/3/8/20/inf, 30 % customers needing 2 (5 %: 3) vehicles; "
                 "30 random exported operators per sequence from the solver's initial state, judged after every operator; "
                 "solve_vrptw with max_iter <= 40 (120 thorough), random integer weights; non-trivial = a removal that "
                 "removed customers is followed by an insertion that places some (sequence) / at least one ALNS iteration ran (solve)")
    corpus = _corpus()
    seq_cases = [c for c in corpus if c["kind"] == "vrp_seq"] + [json.loads(json.dumps(c)) for c in FIXED]
    solve_cases = [c for c in corpus if c["kind"] == "vrp_solve"]
    seq_cases += [gen_seq_case(ctx.rng, big) for _ in range(ctx.budget(130, 2500))]
    solve_cases += [gen_solve_case(ctx.rng, big) for _ in range(ctx.budget(80, 1200))]
    spec_budget = ctx.budget(2500, 20000)  # implementation states handed to the Coq checker spec_chk

    seq_outs = pmap(run_seq, seq_cases)
    solve_outs = pmap(run_solve, solve_cases)

    trace_terms, trace_meta, spec_terms, spec_meta, ftrace_terms = [], [], [], [], []
    n_viol = 0
    for case, out in zip(seq_cases, seq_outs):
        ctx.evaluations += len(out["steps"])
        inst = case["inst"]
        ctx.count("vrp_customers", len(inst["customers"]))
        ctx.count("vrp_vehicles", len(inst["caps"]))
        ctx.count("vrp_multi_customers", sum(1 for c in inst["customers"] if c["required_vehicles"] > 1))
        for cap in set(map(str, inst["caps"])):
            ctx.count("vrp_capacity", cap)
        if not out["dist_ok"]:
            ctx.internal_errors.append(f"vrp: float distances are not the exact integers on instance {json.dumps(inst)}")
            continue
        for s in out["steps"]:
            if s["post"] is None:
                continue
            ctx.count("vrp_op", s["op"])
            if s["op"] in REMOVALS:
                ctx.count("vrp_removed_per_removal", len(set(s["post"]["unassigned"]) - set(s["pre"]["unassigned"])))
            else:
                ctx.count("vrp_placed_per_insertion", len(set(s["pre"]["unassigned"]) - set(s["post"]["unassigned"])))
            multi_on = [sum(1 for r in s["post"]["routes"] if c["id"] in r) for c in inst["customers"] if c["required_vehicles"] > 1]
            ctx.count("vrp_state_multi_on_routes", "some on >= 2 routes" if any(k >= 2 for k in multi_on)
                      else ("some on 1 route" if any(k == 1 for k in multi_on) else "none routed"))
            ctx.count("vrp_state_unassigned", len(s["post"]["unassigned"]))
        if out["bad"]:
            n_viol += 1
            small = shrink_seq(case) if n_viol <= 2 else case
            sout = run_seq(small)
            ctx.violation(f"vrp operator sequence: {sout['bad'] or out['bad']}",
                          {**small, "impl_steps": [{k: s[k] for k in ("op", "args", "pre", "post")} for s in sout["steps"][-3:]]})
        if _seq_nontrivial(out):
            ctx.nontriv(json.dumps(case, sort_keys=True))
        ctx.sample({"kind": "vrp_seq", "inst": inst, "seed": case["seed"],
                    "steps": [{"op": s["op"], "args": s["args"], "post": s["post"]} for s in out["steps"][:3]]}, 5)
        good = [s for s in out["steps"] if s["post"] is not None]
        if out["init"] is None or not all(snap_ok(s["post"]) for s in good):
            continue
        trace_terms.append(c_trace_case(case, out))
        ftrace_terms.append(c_ftrace_case(case, out))
        trace_meta.append((case, out))
        ctx.traces_validated += 1
        for s in good:
            if isinstance(s.get("obj"), int) and len(spec_terms) < spec_budget:
                spec_terms.append(c_spec_case(inst, case["weights"], s["post"], s["obj"]))
                spec_meta.append((case, s))

    solve_terms, solve_meta = [], []
    for case, out in zip(solve_cases, solve_outs):
        ctx.evaluations += 1
        ctx.count("vrp_solve_max_iter", case["max_iter"])
        if out["result"]:
            it = out["result"]["iterations"]
            ctx.count("vrp_solve_iterations", it if it <= 3 else ("4-10" if it <= 10 else ("11-25" if it <= 25 else "26+")))
            ctx.count("vrp_solve_unassigned", len(out["result"]["state"]["unassigned"]))
            ctx.count("vrp_solve_accepts", sum(out["acc"]))
        if out["bad"]:
            ctx.violation(f"vrp: {out['bad']}", {**case, "impl": out["result"]})
        if out["result"] is None:
            continue
        if len(out["records"]) >= 3:
            ctx.nontriv(json.dumps(case, sort_keys=True))
        if not out.get("shape_ok"):
            ctx.violation("solve_vrptw does not call its operators as greedy_insertion, then (destroy, repair) pairs - "
                          "the recorded call sequence cannot be replayed through the model",
                          {**case, "calls": [r["op"] for r in out["records"]]}, no_input=True)
            continue
        if not (snap_ok(out["result"]["state"]) and isinstance(out["result"]["objective"], int)
                and all(snap_ok(r["post"]) for r in out["records"])):
            continue
        solve_terms.append(c_solve_case(case, out))
        solve_meta.append((case, out))
        ctx.traces_validated += 1
        spec_terms.append(c_spec_case(case["inst"], case["weights"], out["result"]["state"], out["result"]["objective"]))
        spec_meta.append((case, {"op": "solve_vrptw", "post": out["result"]["state"], "obj": out["result"]["objective"]}))

    f_trace = ctx.coq_check("vrp_trace", IMPORTS, "trace_case",
                            "fun c => st_eqb (init_state (fst (fst c))) (snd (fst c)) && trace_chk c", trace_terms, shard=40)
    f_choice = ctx.coq_check("vrp_choice", IMPORTS, "ftrace_case",
                             "fun c => st_eqb (init_state (fst (fst c))) (snd (fst c)) && ftrace_chk c", ftrace_terms, shard=40)
    f_solve = ctx.coq_check("vrp_solve", IMPORTS, "solve_case", "solve_chk", solve_terms, shard=25)
    f_spec = ctx.coq_check("vrp_spec", IMPORTS, "spec_case", "spec_chk", spec_terms, shard=400)
    for i in f_spec:
        case, s = spec_meta[i]
        ctx.violation("vrp: implementation state rejected by the Coq checker spec_chk (sound w.r.t. vrp_spec) although the "
                      "Python oracle accepts it", {**case, "state": s["post"], "objective": s["obj"], "after": s["op"],
                                                   "lemma": "Cases/C18/vrp_spec_*.v corr"}, no_input=True)

    disagree = [("trace", trace_meta[i]) for i in f_trace] + [("solve", solve_meta[i]) for i in f_solve] + \
        [("choice", trace_meta[i]) for i in f_choice if i not in set(f_trace)]
    if (disagree or ctx.broken) and not any(not v["no_input"] for v in ctx.violations):
        found = False
        pool = [gen_seq_case(ctx.rng, True) for _ in range(3000)]
        for kind, (case, _o) in disagree[:10]:
            if kind in ("trace", "choice"):
                for _ in range(60):  # neighbours: same instance, other seeds / plans
                    pool.append({**json.loads(json.dumps(case)), "seed": ctx.rng.randrange(10**6), "plan": gen_plan(ctx.rng, 30)})
        for case, out in zip(pool, pmap(run_seq, pool)):
            if out["bad"]:
                small = shrink_seq(case)
                sout = run_seq(small)
                ctx.violation(f"vrp operator sequence: {sout['bad'] or out['bad']}",
                              {**small, "impl_steps": [{k: s[k] for k in ("op", "args", "pre", "post")} for s in sout["steps"][-3:]]})
                found = True
                break
        if not found:
            spool = [gen_solve_case(ctx.rng, True) for _ in range(1500)]
            for case, out in zip(spool, pmap(run_solve, spool)):
                if out["bad"]:
                    ctx.violation(f"vrp: {out['bad']}", {**case, "impl": out["result"]})
                    found = True
                    break
        if not found:
            for kind, (case, out) in disagree[:1]:
                if kind == "choice":
                    k_bad, model = _first_disagreeing_step(ctx, case, out, faithful=True)
                    ctx.violation("correspondence lemma vrp_choice: the choice-computing model SV.C18.VrpChoice.apply_fop and the "
                                  "implementation's operator differ (which customers / positions are chosen: cost ranking, feasibility "
                                  "test, tie-break), while the bookkeeping model (vrp_trace) still agrees",
                                  {**case, "step": k_bad, "impl_step": out["steps"][k_bad] if k_bad is not None else None,
                                   "model": model, "lemma": "Cases/C18/vrp_choice_*.v corr"}, no_input=True)
                elif kind == "trace":
                    k_bad, model = _first_disagreeing_step(ctx, case, out)
                    ctx.violation("correspondence lemma vrp_trace: model SV.C18.Vrp.apply_op and the implementation's operator differ "
                                  "(observable: routes, unassigned, arrival_times after the operator; or a choice fails the model's guard)",
                                  {**case, "step": k_bad, "impl_step": out["steps"][k_bad] if k_bad is not None else None,
                                   "model": model, "lemma": "Cases/C18/vrp_trace_*.v corr"}, no_input=True)
                else:
                    model = ctx.coq_eval("vrp_solve_show", IMPORTS, _solve_show_term(case, out))
                    ctx.violation("correspondence lemma vrp_solve: model SV.C18.Vrp.solve and solve_vrptw differ (observable: result "
                                  "state, objective)", {**case, "impl": out["result"], "model": model[-1500:],
                                                        "lemma": "Cases/C18/vrp_solve_*.v corr"}, no_input=True)

    ctx.notes += [
        "vrp: instances have integer coordinates with integer pairwise Euclidean distances (checked on every run: VRPState._dist "
        "equals the exact integer matrix, i.e. float hypot is exact on these), integer time windows / service times / demands / "
        "weights, so every float operation of vrp.py is exact and the model computes in Z; rounding is outside the theorems",
        "vrp: customer ids are 1..n in list order (vrp.py indexes `customers` by id; the docstring example does the same)",
        "vrp model 1 (C18/Vrp.v, lemma vrp_trace, theorems C18_vrp_inv*): ALL choices of the operators are oracle arguments recorded "
        "from the real run (rng answers via a delegating proxy around random.Random, insert(pos, cid) calls via a VRPState subclass "
        "whose copy() hands out logging lists, removed sets by before/after difference); the model checks the guards of the choices "
        "and models what is done with them",
        "vrp model 2 (C18/VrpChoice.v, lemma vrp_choice, theorems C18_vrp_inv_computed_choices, C18_vrp_*_total): the choices are "
        "computed as in vrp.py (worst_removal ranking, related/sync nearest neighbours, _insertion_cost incl. its reading of stale "
        "arrival times inside sync_aware_insertion, cheapest position, regret-k, vehicle selection); oracle = rng.sample/choice/shuffle "
        "answers, the candidate index selected by rng.random()**2 in worst_removal (computed by the harness from the logged draw with "
        "the code's formula), iteration orders of the set `unassigned` (logged by a set subclass), n_remove of related_removal "
        "(taken as the number of customers actually removed)",
        "vrp: sync_assignments is not modelled (nothing reads it); on_progress is not exercised in the VRP runs",
        "vrp: alns acceptance answers are recovered from object identity (the next destroy operator received this candidate)",
    ]


def _first_disagreeing_step(ctx, case, out, faithful=False):
    good = [s for s in out["steps"] if s["post"] is not None]
    prev = out["init"]
    for k, s in enumerate(good):
        ap = f"apply_fop {c_inst(case['inst'])} ({c_fop(s)})" if faithful else f"apply_op {c_inst(case['inst'])} ({c_op(s)})"
        term = f"match {ap} {c_state(prev)} with Some s => (st_eqb s {c_state(s['post'])}, Some s) | None => (false, None) end"
        txt = ctx.coq_eval(f"vrp_show_{k}", IMPORTS, term)
        if "(true," not in txt.replace("\n", " "):
            return k, txt[-1500:]
        prev = s["post"]
    return None, ""


def _solve_show_term(case, out):
    recs = out["records"]
    n_it = (len(recs) - 1) // 2
    its = clist(range(n_it), lambda i: f"({c_op(recs[1 + 2 * i])}, {c_op(recs[2 + 2 * i])}, {cbool(out['acc'][i])})")
    return f"solve {c_weights(case['weights'])} {c_inst(case['inst'])} {c_evs(recs[0]['oracle']['evs'])} {its}"
