"""C18, VRPTW part - solve_vrptw states and every exported destroy/repair operator keep the bookkeeping of a
VRPState intact and the objective is the documented weighted sum (called by harness/props/C18.py: run_part).

Tie to /repo (working tree): the eight exported operators of solvor.vrp are called directly on states reached by
random operator sequences (starting from the solver's own initial state) with a recording `rng`; the states they
work on are instances of a subclass of VRPState whose copy() hands out routes that log every `insert(pos, cid)`.
From the rng answers, the logged insertions and the before/after difference the harness recovers the CHOICES the
operator made (which customers it removed, which customer went where) and replays them through the Gallina model
SV.C18.Vrp.apply_op inside coqc (vm_compute): after every operator the model's (routes, unassigned, arrival_times)
must equal the implementation's, and every choice must pass the guards under which invariant I is proved
(C18/VrpProofs*.v).  solve_vrptw is run end to end with the operators and `Random` wrapped the same way and compared
with the model SV.C18.Vrp.solve (ALNS loop included: result state and objective).
Independently of the model (a) a Python oracle written from the contract (partition, no repeat, single-vehicle
customers on one route, arrival times recomputed from scratch, objective recomputed from the documented weighted
sum) and (b) the Coq boolean `spec_chk` (sound w.r.t. vrp_spec, C18/VrpSpec.v) judge the implementation's states.
Two models, two correspondence lemmas per operator sequence:
 * vrp_trace  - SV.C18.Vrp.apply_op: ALL choices are oracle (rng answers, worst_removal's cost ranking, related/sync
   nearest neighbours, _insertion_cost feasibility and cheapest position, regret order, set iteration order); modelled
   as code: what the operators do with their choices (strip from every route, unassigned bookkeeping, partial/full
   arrival refresh), compute_arrival_times, vrp_objective, the alns accept/best logic.  A disagreement here means the
   BOOKKEEPING changed.
 * vrp_choice - SV.C18.VrpChoice.apply_fop: the choices are COMPUTED as vrp.py computes them (pure integer arithmetic
   on these instances); oracle is only what comes from outside the operator: rng.sample / choice / shuffle answers,
   rng.random() as the candidate index it selects in worst_removal, the iteration order of the Python set `unassigned`
   (logged by a set subclass), n_remove (float arithmetic on `degree`).  A disagreement only here means a heuristic
   (cost ranking, feasibility test, tie-break) changed while the bookkeeping model still agrees.

Round-2 families (HARDENING.md): A - states built / re-built with the public VRPState dataclass (no distance matrix), twin
runs against from_problem, operators must not modify their input nor any earlier state, same call twice; L - vehicle ids
as labels, fresh (equal, not identical) int objects for ids >= 257; I - solve_vrptw call forms (tuples of length 3..8,
tuple / list containers, vehicles as int / list / tuple, depot as list); S - line instances with 17 / 70 / 400 customers
(one route > 256 stops); M - lengths x 2^20 .. 2^36, demands x 2^31 .. 2^40 (exact below 2^52), decimal geometry with
tolerance; O - degree / n_routes / k / max_iter / max_no_improve corners and sweeps, on_progress; H - rare internal events
read off the logs (insertion_cost fallback branch, stale arrival times, regret with < k options, sync_removal fallback,
ALNS accept / reject / weight update ...) are counted and searched for until each has been seen.

Round-3 families: W - work volume per loop (one route with 10^4 stops, 2^12 insertion positions for one customer, 10^4
vehicles with the customers on the last ones, 140 customers placed by one insertion call, ALNS loops up to 10^4 iterations
with the iteration count replayed from the recorded scores); A2 - the caller edits the state object / the customers list
in place between calls (next call vs the same call on a deep copy / on fresh objects, and vs the oracle of the edited
instance); X - judged: -0.0, denormals, tiny values, fractional / zero weights; observation-only (POLICY_X: outside every
property): inf / NaN entries and finite values >= 2^53 (1e308 coordinates whose costs overflow, +-2^60). 
"""
import inspect as _inspect
import copy as _copy
import json
import math
import random as _random
from math import isqrt

from harness.core import COQ, VERIF, Ctx, cbool, clist, cnat, copt, cz, guarded, pmap

ANCHORS = ["solvor/vrp.py", "solvor/lns.py"]
IMPORTS = "From SV Require Import C18.Vrp C18.VrpSpec C18.VrpChoice."

REMOVALS = ["random_removal", "worst_removal", "related_removal", "route_removal", "sync_removal"]
INSERTIONS = ["greedy_insertion", "regret_insertion", "sync_aware_insertion"]
OPS = REMOVALS + INSERTIONS
DEFAULT_W = {"distance_weight": 1, "vehicle_weight": 0, "tw_penalty": 1000, "capacity_penalty": 1000,
             "sync_penalty": 10000, "unassigned_penalty": 100000}


# ---------------------------------------------------------------- generators
def _int_dist(p, q):
    d2 = (p[0] - q[0]) ** 2 + (p[1] - q[1]) ** 2
    r = isqrt(d2)
    return r if r * r == d2 else None


def gen_points(rng, n):
    """depot + n customer locations with pairwise INTEGER Euclidean distances (collinear points, 3-4-5 / 5-12-13
    rectangles and whatever else the greedy completion finds on a 25 x 25 grid; co-located customers allowed)."""
    mode = rng.choice(["grid", "grid", "grid", "xline", "diag345", "same"])
    if mode == "xline":
        return [(rng.randint(-12, 12), 0) for _ in range(n + 1)]
    if mode == "diag345":
        ks = [rng.randint(-4, 4) for _ in range(n + 1)]
        return [(3 * k, 4 * k) for k in ks]
    if mode == "same":
        p = (rng.randint(-3, 3), rng.randint(-3, 3))
        return [p] * (n + 1)
    pts = [(rng.randint(-6, 6), rng.randint(-6, 6))]
    grid = [(x, y) for x in range(-12, 13) for y in range(-12, 13)]
    while len(pts) < n + 1:
        cand = [g for g in grid if all(_int_dist(g, p) is not None for p in pts)]
        far = [g for g in cand if g not in pts]
        pts.append(rng.choice(far if far and rng.random() < 0.85 else cand))
    return pts


def gen_inst(rng, big=False, sizes=None):
    n = rng.choice(sizes or ([0, 1, 2, 3, 3, 4, 4, 5, 5, 6, 7] + ([8, 9] if big else [])))
    pts = gen_points(rng, n)
    nveh = rng.choice([1, 2, 2, 3, 3, 3, 4] + ([0] if rng.random() < 0.1 else []))
    customers = []
    for i in range(1, n + 1):
        tw = rng.random() < 0.5
        a = rng.randint(0, 20)
        req = 1
        r = rng.random()
        if r < 0.3:
            req = 2
        elif r < 0.35:
            req = 3
        elif r < 0.37:
            req = 0  # treated like a single-vehicle customer by sync_violation, by neither list of sync_aware_insertion
        customers.append({"id": i, "x": pts[i][0], "y": pts[i][1], "demand": rng.randint(0, 6),
                          "tw_start": a if tw else 0, "tw_end": (a + rng.choice([0, 1, 3, 10, 30, 60])) if tw else None,
                          "service_time": rng.choice([0, 0, 1, 2, 5]), "required_vehicles": req})
    capv = [1, 3, 8, 20, 20, None, None]
    if rng.random() < 0.25:
        caps = [rng.choice(capv) for _ in range(nveh)]
    else:
        caps = [rng.choice(capv)] * nveh
    inst = {"depot": list(pts[0]), "customers": customers, "caps": caps,
            "num": rng.choice(["int", "float", "float", "mixed"])}  # feed the numbers as int (4), float (4.0) or a mix
    if rng.random() < 0.3:  # class L: vehicle ids are labels, not positions (also >= 257, repeated)
        inst["veh_ids"] = [rng.choice([0, 1, 7, 255, 256, 257, 1000, 65537]) for _ in range(nveh)]
    return inst


def _hypot_exact(inst):
    """Python's own float hypot gives the exact integer distance for every pair (so exact comparison is fair)."""
    pts = [tuple(inst["depot"])] + [(c["x"], c["y"]) for c in inst["customers"]]
    return all(_int_dist(p, q) is not None and math.hypot(float(p[0] - q[0]), float(p[1] - q[1])) == _int_dist(p, q)
               and math.hypot(float(p[0]) - float(q[0]), float(p[1]) - float(q[1])) == _int_dist(p, q) for p in pts for q in pts)


def gen_inst_scaled(rng, big=False):
    """class M: a small instance with lengths/times multiplied by F and demands/capacities by G (2^31, 10^9, 2^38 ...);
    all quantities stay exact integers below 2^52, so the implementation's float arithmetic must still be exact."""
    for _ in range(50):
        inst = gen_inst(rng, big, sizes=[2, 3, 4, 5, 6])
        F = rng.choice([2**20, 2**31, 10**6, 10**9, 2**31 + 1, 2**36])
        G = rng.choice([1, 1, 2**31, 10**9, 2**40])
        inst["depot"] = [x * F for x in inst["depot"]]
        for c in inst["customers"]:
            c["x"] *= F
            c["y"] *= F
            c["tw_start"] *= F
            c["service_time"] *= F
            if c["tw_end"] is not None:
                c["tw_end"] *= F
            c["demand"] *= G
        inst["caps"] = [None if cap is None else cap * G for cap in inst["caps"]]
        inst["scale"] = [F, G]
        if _hypot_exact(inst):
            return inst
    return gen_inst(rng, big)


def weights_for(rng, inst):
    """integer weights such that every objective stays an exact float (< 2^52) on this instance"""
    w = gen_weights(rng)
    F, G = inst.get("scale", [1, 1])
    n = max(1, len(inst["customers"]))
    span = 400 * F * n  # bound on total distance / any arrival time
    for _ in range(8):
        bound = (w["distance_weight"] * span + w["tw_penalty"] * span * n + w["capacity_penalty"] * 6 * G * n
                 + w["sync_penalty"] * max(1000 * 3 * n, span) + w["unassigned_penalty"] * n + w["vehicle_weight"] * 8)
        if bound < 2**52:
            return w
        for k in ("tw_penalty", "capacity_penalty", "sync_penalty", "distance_weight"):
            w[k] = max(1, w[k] // 10)
    return None


def gen_inst_real(rng):
    """float geometry (non-integral distances, decimal time windows): judged by the Python oracle with a 1e-9 tolerance,
    not part of the Coq correspondence"""
    inst = gen_inst(rng, False, sizes=[2, 3, 4, 5, 6, 7])
    r2 = lambda lo, hi: round(rng.uniform(lo, hi), rng.choice([1, 2, 6]))  # noqa: E731
    inst["depot"] = [r2(-5, 5), r2(-5, 5)]
    for c in inst["customers"]:
        c["x"], c["y"] = r2(-10, 10), r2(-10, 10)
        c["demand"] = rng.choice([c["demand"], r2(0, 6)])
        c["service_time"] = rng.choice([0.0, 0.5, 0.1, 2.5])
        if c["tw_end"] is not None:
            c["tw_start"] = r2(0, 20)
            c["tw_end"] = c["tw_start"] + rng.choice([0.0, 1e-9, 0.3, 10.0, 30.0])
    inst["caps"] = [None if cap is None else cap + rng.choice([0, 0.5]) for cap in inst["caps"]]
    inst["real"] = True
    inst["num"] = "asis"
    return inst


# inside the quantifier (finite, moderate magnitude): judged.  Outside (POLICY_X a-c: inf / NaN, |v| >= 1e300 or overflowing sums,
# +-2^60 beyond the 2^53 exactness of the float results): generated, run, counted, never judged.
EXTREME_INSIDE = [-0.0, 0.0, 5e-324, -5e-324, 1e-300, 2.5e-10]
EXTREME = [1e308, -1e308, 1.7e308, 8.9e307, -8.9e307, 1e154, 2.0**60, -(2.0**60), 2.0**60 + 2.0**9] + EXTREME_INSIDE
NONFINITE = [float("inf"), float("-inf"), float("nan")]


def outside_quantifier(case):
    """POLICY_X: observation-only cases"""
    inst = case["inst"]
    vals = [v for c in inst["customers"] for v in (c["x"], c["y"], c["demand"], c["service_time"], c["tw_start"], c["tw_end"]) if v is not None]
    vals += list(inst["depot"]) + [cap for cap in inst["caps"] if cap is not None] + list((case.get("weights") or {}).values())
    return any((not _finite(v)) or abs(v) >= 2.0**53 for v in vals)


def gen_inst_extreme(rng, nonfinite=False, inside=False):
    """class X: float extremes.  Finite coordinates / times / demands near 1e308 whose sums overflow to inf, +-2^60 next to
    small values (updates below the float spacing), denormals, negative zero; with `nonfinite` also inf / NaN entries
    (then an exception is an acceptable answer).  Always at least one multi-vehicle customer when there are >= 2 vehicles.
    Judged by the Python oracle in float arithmetic (same operations in the documented order), no Coq."""
    inst = gen_inst(rng, False, sizes=[1, 2, 3, 3, 4, 5])
    if len(inst["caps"]) < 2:
        inst["caps"] = (inst["caps"] + [None, None])[:2]
        inst.pop("veh_ids", None)
    pool = EXTREME_INSIDE if inside else EXTREME + (NONFINITE * 2 if nonfinite else [])
    cs = inst["customers"]
    hit = False
    for c in cs:
        for f in ("x", "y"):
            if rng.random() < 0.35:
                c[f] = rng.choice(pool)
                hit = True
        if rng.random() < 0.15:
            c["demand"] = abs(rng.choice(pool + ([] if inside else [1e308])))
        if rng.random() < 0.15:
            c["service_time"] = abs(rng.choice(pool)) if not nonfinite else rng.choice(pool)
        if rng.random() < 0.15:
            c["tw_start"] = rng.choice(pool)
            c["tw_end"] = rng.choice([None, c["tw_start"], 1e308, 0.0] + ([float("nan"), float("-inf")] if nonfinite else []))
    if not hit:
        rng.choice(cs)["x"] = rng.choice(pool)
    rng.choice(cs)["required_vehicles"] = 2  # the sync code paths must see the extreme costs
    far = rng.choice(cs)
    if rng.random() < 0.5:
        far["required_vehicles"] = rng.choice([2, 2, 3])
        far["x"] = rng.choice(pool if inside else [1e308, -1e308, 1.7e308] + (NONFINITE if nonfinite else []))
    if rng.random() < 0.2:
        inst["depot"] = [rng.choice(pool), rng.choice([0.0, -0.0, 3.0])]
    if rng.random() < 0.3:
        inst["caps"] = [rng.choice([cap, 5e-324] + ([] if inside else [1e308]) + ([float("nan")] if nonfinite else [])) for cap in inst["caps"]]
    inst["real"] = True
    inst["num"] = "asis"
    inst["nonfinite"] = any(not _finite(v) for c in cs for v in (c["x"], c["y"], c["demand"], c["service_time"], c["tw_start"])) \
        or any(c["tw_end"] is not None and not _finite(c["tw_end"]) for c in cs) \
        or any(not _finite(v) for v in inst["depot"]) or any(cap is not None and not _finite(cap) for cap in inst["caps"])
    return inst


def gen_weights_extreme(rng, inside=False):
    w = dict(DEFAULT_W)
    if inside:
        if rng.random() < 0.4:
            w[rng.choice(["distance_weight", "tw_penalty", "capacity_penalty", "sync_penalty", "vehicle_weight"])] = rng.choice([0.0, -0.0, 0.5, 2.5e-10])
        return w
    if rng.random() < 0.4:
        w[rng.choice(["distance_weight", "tw_penalty", "capacity_penalty", "sync_penalty", "vehicle_weight"])] = rng.choice([1e300, 1e-300, 0.0, 2.0**60])
    return w


def gen_inst_line(n, nveh=3, multi_every=50):
    """class S: depot at 0, customer i at x = i (or x = 3i, y = 4i), unit demands, wide windows on every 7th customer,
    every 50th customer needs two vehicles"""
    customers = []
    for i in range(1, n + 1):
        customers.append({"id": i, "x": 3 * i, "y": 4 * i, "demand": 1, "tw_start": 5 * i if i % 7 == 0 else 0,
                          "tw_end": 100 * n if i % 7 == 0 else None, "service_time": 1 if i % 5 == 0 else 0,
                          "required_vehicles": 2 if i % multi_every == 3 else 1})
    return {"depot": [0, 0], "customers": customers, "caps": [n, None, n // 4][:nveh] + [None] * max(0, nveh - 3), "num": "float"}


def gen_state0(rng, inst):
    """a random CONSISTENT state (class A/H: hand-built through the public dataclass; also states no insertion heuristic
    would build: overloaded vehicles, late arrivals, multi-vehicle customers on 1..required routes)"""
    nveh = len(inst["caps"])
    routes = [[] for _ in range(nveh)]
    un = []
    for c in inst["customers"]:
        if nveh == 0 or rng.random() < 0.25:
            un.append(c["id"])
            continue
        k = 1 if c["required_vehicles"] <= 1 else rng.randint(1, min(nveh, c["required_vehicles"]))
        for v in rng.sample(range(nveh), k):
            routes[v].insert(rng.randint(0, len(routes[v])), c["id"])
    return {"routes": routes, "unassigned": un}


def gen_weights(rng):
    if rng.random() < 0.5:
        return dict(DEFAULT_W)
    return {"distance_weight": rng.choice([1, 2, 7]), "vehicle_weight": rng.choice([0, 5, 50]),
            "tw_penalty": rng.choice([1000, 10, 1]), "capacity_penalty": rng.choice([1000, 3]),
            "sync_penalty": rng.choice([10000, 10, 1]), "unassigned_penalty": 100000}


DEGREES = [0.0, 0.01, 0.1, 0.2, 0.3, 0.3, 0.5, 0.99, 1.0, 1.5, -0.5]
N_ROUTES = [0, 1, 1, 1, 2, 3, 5]
REGRET_K = [1, 2, 2, 3, 4, 5, 8]


def gen_plan(rng, nops, corners=False, first=True, small_degree=False):
    plan = [["greedy_insertion", {}]] if first else []  # _build_initial_solution
    last_removal = False
    for _ in range(nops):
        # mostly alternate destroy / repair (as ALNS does), sometimes two of a kind in a row
        name = rng.choice(INSERTIONS if last_removal else REMOVALS) if rng.random() < 0.7 else rng.choice(OPS)
        last_removal = name in REMOVALS
        if name in ("random_removal", "worst_removal", "related_removal"):
            params = {"degree": rng.choice([0.01, 0.02] if small_degree else (DEGREES if corners else [0.1, 0.2, 0.3, 0.3, 0.5, 1.0]))}
            if corners and rng.random() < 0.15:
                params = {}  # the default degree
        elif name == "route_removal":
            params = {"n_routes": rng.choice(N_ROUTES if corners else [1, 1, 1, 2, 3])}
            if corners and rng.random() < 0.15:
                params = {}
        elif name == "regret_insertion":
            params = {"k": rng.choice(REGRET_K if corners else [2, 2, 3])}
            if corners and rng.random() < 0.15:
                params = {}
        else:
            params = {}
        plan.append([name, params])
    return plan


def gen_seq_case(rng, big=False, family="base"):
    case = {"kind": "vrp_seq", "family": family, "seed": rng.randrange(10**6)}
    if family == "scaled":
        inst = gen_inst_scaled(rng, big)
    elif family == "real":
        inst = gen_inst_real(rng)
    elif family == "extreme":
        inside = rng.random() < 0.5
        inst = gen_inst_extreme(rng, nonfinite=not inside and rng.random() < 0.3, inside=inside)
    else:
        inst = gen_inst(rng, big)
    case["inst"] = inst
    case["weights"] = gen_weights_extreme(rng, inside) if family == "extreme" else (weights_for(rng, inst) or dict(DEFAULT_W))
    case["plan"] = gen_plan(rng, 30, corners=family in ("corners", "hand", "state0"))
    if family == "extreme":
        # the sync operators come early and often; hand-built or from_problem start
        case["plan"] = [[rng.choice(["sync_aware_insertion", "greedy_insertion", "regret_insertion"]), {}]] + gen_plan(rng, 14, first=False)
        case["start"] = rng.choice(["from_problem", "hand"])
        case["coq"] = False
    if family == "hand":
        # the state is built directly with the VRPState dataclass (no precomputed matrix) at the start and / or re-built
        # from its public fields before some operators; `twin`: the same run from from_problem must agree step by step
        case["start"] = rng.choice(["hand", "hand", "from_problem"])
        case["rebuild_at"] = sorted(rng.sample(range(1, 31), rng.choice([0, 1, 3, 8]))) if case["start"] == "hand" \
            else sorted(rng.sample(range(1, 31), rng.choice([1, 3, 8])))
        case["twin"] = True
    elif family == "state0":
        case["start"] = "state0"
        case["state0"] = gen_state0(rng, inst)
        case["plan"] = gen_plan(rng, 20, corners=True, first=False)
        case["rebuild_at"] = sorted(rng.sample(range(1, 20), rng.choice([0, 0, 2])))
    if rng.random() < 0.2:
        case["twice"] = True
    return case


def gen_big_seq_case(rng, n):
    """class S / L: n customers on a line, state built by hand with block routes and FRESH int objects for every id
    (ids >= 257 are equal but not identical across customers / routes / unassigned); operators with small degree"""
    inst = gen_inst_line(n)
    ids = list(range(1, n + 1))
    un = sorted(rng.sample(ids, min(n, 6)))
    rest = [i for i in ids if i not in un]
    a, b = (2 * len(rest)) // 3, (5 * len(rest)) // 6  # one long route (crosses 257 stops for n = 400), two short ones
    routes = [rest[:a], rest[a:b][::-1], rest[b:]]
    for c in inst["customers"]:  # a multi-vehicle customer sits on two routes
        if c["required_vehicles"] == 2 and c["id"] in routes[0]:
            routes[1].insert(len(routes[1]) // 2, c["id"])
    # route_removal frees a third of the customers: re-inserting ~100 customers is minutes of _insertion_cost calls, so it
    # comes last (after it only the oracle looks at the state)
    plan = [p for p in gen_plan(rng, 10 if n > 100 else 16, first=False, small_degree=True) if p[0] != "route_removal"]
    plan.append(["route_removal", {"n_routes": 1}])
    return {"kind": "vrp_seq", "family": f"size{n}", "inst": inst, "weights": dict(DEFAULT_W), "seed": rng.randrange(10**6),
            "start": "state0", "state0": {"routes": routes, "unassigned": un}, "plan": plan, "fresh_ids": True,
            "coq": n <= 20, "rebuild_at": [len(plan) // 2]}


A2_OPS = ["@move_out", "@swap", "@recoord", "@append_customer"]


def gen_a2_case(rng, big=False):
    """class A2: between operator calls the CALLER edits the state object in place through its public fields (moves a
    customer to unassigned, swaps two stops, replaces a Customer of a hand-built state by one with other coordinates,
    appends a customer) and refreshes the arrival times; the next operator on the edited object must agree with the same
    operator on a deep copy of it and with the oracle for the edited instance."""
    case = gen_seq_case(rng, big, "base")
    case["family"] = "inplace"
    case["start"] = rng.choice(["hand", "hand", "from_problem"])
    plan = []
    for stp in gen_plan(rng, 24, corners=False):
        plan.append(stp)
        if rng.random() < 0.3:
            ops = A2_OPS if case["start"] == "hand" else A2_OPS[:2]  # a from_problem state carries its own distance matrix
            plan.append([rng.choice(ops), {"r": rng.randrange(10**6)}])
    case["plan"] = plan
    case["coq"] = False
    case.pop("twice", None)
    return case


def gen_work_seq_cases(rng, thorough=False):
    """class W: instances that maximise the iteration count of one loop each (answers by construction / by the oracle):
    stops of one route (compute_arrival_times, time_window_violation, worst_removal ranking, removal filters): 10^4+;
    insertion positions scanned for one customer (_insertion_cost loop of greedy / regret / sync_aware): 2^12+;
    vehicles (every `for v in range(len(...))`): 10^4+; customers inserted one by one by greedy / regret passes: 2^7+."""
    out = []
    # (a) one route with n stops, removal operators only (linear work), hand-built
    for n in ([10500] if not thorough else [10500, 70000]):
        inst = gen_inst_line(n, nveh=2, multi_every=n // 3)  # few multi-vehicle customers: sync_violation scans a route per customer
        ids = list(range(1, n + 1))
        un = [ids[-1]]
        routes = [ids[:-1], []]
        plan = [["worst_removal", {"degree": 0.0002}], ["related_removal", {"degree": 0.0002}], ["random_removal", {"degree": 0.0003}],
                ["sync_removal", {}], ["route_removal", {"n_routes": 1}]]
        out.append({"kind": "vrp_seq", "family": f"work-stops{n}", "inst": inst, "weights": dict(DEFAULT_W), "seed": rng.randrange(10**6),
                    "start": "state0", "state0": {"routes": routes, "unassigned": un}, "plan": plan, "coq": False, "no_ic": True,
                    "loops": {"route stops": n - 1}})
    # (b) 2^12+ insertion positions for the one unassigned (two-vehicle) customer
    for n in ([4200] if not thorough else [4200, 8300]):
        inst = gen_inst_line(n, nveh=2, multi_every=n)
        inst["caps"] = [None, None]
        inst["customers"][n // 2]["required_vehicles"] = 2
        cid = inst["customers"][n // 2]["id"]
        ids = [i for i in range(1, n + 1) if i != cid]
        routes = [ids[:-5], ids[-5:]]
        plan = [[rng.choice(["greedy_insertion", "sync_aware_insertion", "regret_insertion"]), {}], ["random_removal", {"degree": 0.0003}]]
        out.append({"kind": "vrp_seq", "family": f"work-positions{n}", "inst": inst, "weights": dict(DEFAULT_W), "seed": rng.randrange(10**6),
                    "start": "state0", "state0": {"routes": routes, "unassigned": [cid]}, "plan": plan, "coq": False, "no_ic": True,
                    "loops": {"insertion positions scanned for one customer": n - 5}})
    # (c) many vehicles
    for nv in ([130, 10001] if not thorough else [130, 4100, 10001, 100001]):
        inst = gen_inst(rng, False, sizes=[4, 5])
        inst["caps"] = [rng.choice([8, 20, None])] * nv
        inst.pop("veh_ids", None)
        inst["num"] = "float"
        # the customers sit on the LAST vehicles (hand-built state), so every per-vehicle loop has to reach them
        routes = [[] for _ in range(nv)]
        un = []
        for k, c in enumerate(inst["customers"]):
            if k == 0:
                un.append(c["id"])
            else:
                routes[nv - 1 - (k % 3) * (nv // 7)].append(c["id"])
                if c["required_vehicles"] >= 2:
                    routes[nv - 2].append(c["id"])
        out.append({"kind": "vrp_seq", "family": f"work-vehicles{nv}", "inst": inst, "weights": dict(DEFAULT_W), "seed": rng.randrange(10**6),
                    "start": "state0", "state0": {"routes": routes, "unassigned": un},
                    "plan": gen_plan(rng, 6 if nv > 1000 else 12, first=False), "coq": False, "no_ic": True, "loops": {"vehicles": nv}})
    # (d) many customers inserted one after the other from the empty plan
    for n in ([140] if not thorough else [140, 180]):
        inst = gen_inst_line(n, nveh=3)
        inst["caps"] = [None, n, n // 2]
        plan = [[rng.choice(["regret_insertion", "greedy_insertion"]), {}], ["random_removal", {"degree": 1.0}], ["greedy_insertion", {}]]
        out.append({"kind": "vrp_seq", "family": f"work-inserted{n}", "inst": inst, "weights": dict(DEFAULT_W), "seed": rng.randrange(10**6),
                    "start": "hand", "plan": plan, "coq": False, "no_ic": True, "loops": {"customers placed by one insertion call": n}})
    return out


def gen_work_solves(rng, thorough=False):
    """class W: ALNS main loop crossing 2^7 .. 2^12 and 10^4 iterations on a tiny instance (nothing stops it early)"""
    out = []
    for k in ([130, 1030, 4200, 10100] if not thorough else [130, 1030, 2060, 4200, 10100, 30000]):
        inst = gen_inst(rng, False, sizes=[2, 3])
        while not inst["caps"]:
            inst = gen_inst(rng, False, sizes=[2, 3])
        out.append({"kind": "vrp_solve", "family": "work-iterations", "inst": inst, "weights": dict(DEFAULT_W), "seed": rng.randrange(10**6),
                    "max_iter": k, "max_no_improve": 10**9, "coq": k <= 1100, "no_ic": True, "light": k > 2000})
    return out


def gen_solve_case(rng, big=False, family="base"):
    if family == "extreme":
        inside = rng.random() < 0.5
        inst = gen_inst_extreme(rng, nonfinite=not inside and rng.random() < 0.3, inside=inside)
        return {"kind": "vrp_solve", "family": family, "inst": inst, "weights": gen_weights_extreme(rng, inside), "seed": rng.randrange(10**6),
                "max_iter": rng.choice([3, 10, 40, 200]), "max_no_improve": 500,
                "cust_forms": [rng.choice(["obj", "tuple8"]) for _ in inst["customers"]], "vehicles_form": "list", "coq": False}
    if family == "scaled":
        inst = gen_inst_scaled(rng, big)
    elif family == "real":
        inst = gen_inst_real(rng)
    else:
        inst = gen_inst(rng, big)
    w = weights_for(rng, inst) or dict(DEFAULT_W)
    case = {"kind": "vrp_solve", "family": family, "inst": inst, "weights": w, "seed": rng.randrange(10**6),
            "max_iter": rng.choice([0, 1, 2, 3, 10, 25, 25, 40, 40] + ([120] if big else [])),
            "max_no_improve": rng.choice([0, 1, 2, 3, 10, 500, 500, 500])}
    if family == "forms":
        # class I / L: customers as Customer objects or tuples of every accepted length, in a list or a tuple; vehicles as an
        # int (+ vehicle_capacity), a list or a tuple of Vehicle; depot as tuple or list
        for c in inst["customers"]:
            r = rng.random()
            if r < 0.3:
                c["required_vehicles"] = 1
            if r < 0.2:
                c["service_time"] = 0
            if r < 0.1:
                c["tw_end"] = None
        case["cust_forms"] = [rng.choice(["obj", "min", "min", "tuple8"]) for _ in inst["customers"]]
        case["container"] = rng.choice(["list", "tuple"])
        if len(set(map(str, inst["caps"]))) <= 1 and "veh_ids" not in inst and rng.random() < 0.6:
            case["vehicles_form"] = "int"
        else:
            case["vehicles_form"] = rng.choice(["list", "tuple"])
        case["depot_form"] = rng.choice(["tuple", "list"])
    if family == "progress":
        case["on_progress"] = {"k": rng.choice([1, 2, 3, 5, 8]), "interval": rng.choice([0, 1, 1, 2, 3]),
                               "ret": rng.choice(["true", "true", "true", "none"])}
        case["max_iter"] = rng.choice([10, 25])
        case["max_no_improve"] = 500
    if rng.random() < 0.25:
        case["twice"] = True
    return case


def gen_sweep_solves(rng, hi):
    """class O: max_iter = 0 .. hi on one instance, plus the alns segment boundary (weights are updated every 100 iterations)"""
    inst = gen_inst(rng, False, sizes=[4, 5])
    w = weights_for(rng, inst) or dict(DEFAULT_W)
    seed = rng.randrange(10**6)
    out = [{"kind": "vrp_solve", "family": "sweep", "inst": inst, "weights": w, "seed": seed, "max_iter": k, "max_no_improve": 500}
           for k in range(hi + 1)]
    tiny = gen_inst(rng, False, sizes=[2, 3])
    for k in (99, 100, 101, 205):
        out.append({"kind": "vrp_solve", "family": "sweep", "inst": tiny, "weights": dict(DEFAULT_W), "seed": seed + k,
                    "max_iter": k, "max_no_improve": 10**6})
    return out


# the witnesses of the property text / DESIGN.md (both defects are fixed in /repo: 3c6011c, 54303b2)
def _wit_inst(demand1, cap):
    return {"depot": [0, 0], "customers": [
        {"id": 1, "x": 1, "y": 0, "demand": demand1, "tw_start": 0, "tw_end": None, "service_time": 0, "required_vehicles": 2},
        {"id": 2, "x": 2, "y": 0, "demand": 1, "tw_start": 0, "tw_end": None, "service_time": 0, "required_vehicles": 1},
        {"id": 3, "x": 3, "y": 0, "demand": 1, "tw_start": 0, "tw_end": None, "service_time": 0, "required_vehicles": 1}],
        "caps": [cap, cap], "num": "int"}


FIXED = [
    # customer 1 needs two vehicles: sync_aware_insertion then route_removal (each vehicle) then greedy_insertion
    {"kind": "vrp_seq", "inst": _wit_inst(1, 10), "weights": dict(DEFAULT_W), "seed": s, "from_empty": True,
     "plan": [["sync_aware_insertion", {}], ["route_removal", {"n_routes": 1}], ["greedy_insertion", {}],
              ["route_removal", {"n_routes": 1}], ["regret_insertion", {"k": 2}], ["sync_removal", {}],
              ["sync_aware_insertion", {}], ["route_removal", {"n_routes": 2}], ["sync_aware_insertion", {}]]}
    for s in range(4)
] + [
    # customer 1 (two vehicles, demand 5) fits no vehicle of capacity 1: must stay unassigned
    {"kind": "vrp_seq", "inst": _wit_inst(5, 1), "weights": dict(DEFAULT_W), "seed": 0, "from_empty": True,
     "plan": [["sync_aware_insertion", {}], ["random_removal", {"degree": 0.5}], ["sync_aware_insertion", {}],
              ["greedy_insertion", {}], ["sync_removal", {}], ["sync_aware_insertion", {}]]},
]


# ---------------------------------------------------------------- instance -> implementation objects
def _num(x, mode, salt=0):
    if mode == "float" or mode is True:
        return float(x)
    if mode == "mixed":
        return float(x) if salt % 2 else x
    return x


def _fresh(i):
    return int(str(i))  # a new int object (not the cached small int / the literal) for i >= 257


def build(vrp, inst, fresh=False):
    f = inst.get("num", "float" if inst.get("floats") else "int")
    inf = float("inf")
    fid = _fresh if fresh else (lambda i: i)
    custs = [vrp.Customer(0, _num(inst["depot"][0], f), _num(inst["depot"][1], f, 1))]
    for k, c in enumerate(inst["customers"]):
        custs.append(vrp.Customer(fid(c["id"]), _num(c["x"], f, k), _num(c["y"], f, k + 1), _num(c["demand"], f, k + 2),
                                  _num(c["tw_start"], f, k + 3), inf if c["tw_end"] is None else _num(c["tw_end"], f, k + 4),
                                  _num(c["service_time"], f, k + 5), c["required_vehicles"]))
    ids = inst.get("veh_ids") or list(range(len(inst["caps"])))
    vehs = [vrp.Vehicle(fid(ids[i]), inf if cap is None else _num(cap, f, i)) for i, cap in enumerate(inst["caps"])]
    return custs, vehs


_DM_CACHE = {}


class _LazyDM:
    """dm[i][j] computed on demand (instances with thousands of customers: no n x n table)"""

    def __init__(self, pts, real):
        self.pts, self.real = pts, real

    def __len__(self):
        return len(self.pts)

    def __getitem__(self, i):
        return _LazyRow(self, i)


class _LazyRow:
    def __init__(self, dm, i):
        self.dm, self.i = dm, i

    def __getitem__(self, j):
        p, q = self.dm.pts[self.i], self.dm.pts[j]
        return math.dist(p, q) if self.dm.real else _int_dist(p, q)


def dist_matrix(inst):
    if len(inst["customers"]) > 500:
        return _LazyDM([tuple(inst["depot"])] + [(c["x"], c["y"]) for c in inst["customers"]], bool(inst.get("real")))
    key = (tuple(inst["depot"]), tuple((c["x"], c["y"]) for c in inst["customers"]), bool(inst.get("real")))
    dm = _DM_CACHE.get(key)
    if dm is None:
        pts = [tuple(inst["depot"])] + [(c["x"], c["y"]) for c in inst["customers"]]
        if inst.get("real"):
            dm = [[math.dist(p, q) for q in pts] for p in pts]
        else:
            dm = [[_int_dist(p, q) for q in pts] for p in pts]
        if len(_DM_CACHE) > 500:
            _DM_CACHE.clear()
        _DM_CACHE[key] = dm
    return dm


def _eq(a, b, real):
    if not real:
        return a == b and not isinstance(a, bool)
    if a == b:  # also "nan" == "nan" (canon_num) and inf == inf
        return True
    try:
        return abs(a - b) <= 1e-9 * max(1.0, abs(a), abs(b))
    except TypeError:
        return False


def canon_num(x):
    if isinstance(x, bool):
        return x
    if isinstance(x, float):
        if x != x:
            return "nan"  # NaN != NaN would make every snapshot comparison fail
        if abs(x) != float("inf") and x == int(x):
            return int(x)
    return x


def _finite(x):
    return isinstance(x, (int, float)) and not isinstance(x, bool) and x == x and abs(x) != float("inf")


def snapshot(st):
    return {"routes": [[int(c) for c in r] for r in st.routes], "unassigned": sorted(int(c) for c in set(st.unassigned)),
            "arrivals": [[canon_num(t) for t in a] for a in st.arrival_times]}


# ---------------------------------------------------------------- recording machinery (no source change)
class _Sink:
    ins = []    # (customer, vehicle, pos, route length before) per routes[v].insert
    rng = []    # ("sample"|"choice"|"shuffle"|"random", answer)
    iters = []  # iteration orders of the set `unassigned`, one per `for ... in state.unassigned` / list(...)
    ic = []     # _insertion_cost calls: (cid, feasible?, fallback branch?, stale arrival list?, capacity reject?)
    depth = 0


def ic_wrapper(orig):
    """logs every _insertion_cost call (for the event histogram only; the result is passed through)"""

    def w(state, v, pos, cid):
        r = orig(state, v, pos, cid)
        try:
            route, arr = state.routes[v], state.arrival_times[v]
            cap = r is None and state.route_load(v) + state.customers[cid].demand > state.vehicles[v].capacity
            _Sink.ic.append((cid, r is not None, bool(route) and pos > 0 and pos - 1 >= len(arr), len(arr) != len(route), cap))
        except Exception:  # noqa: BLE001
            pass
        return r

    return w


def op_events(name, rec, args, customers):
    """rare internal events of one operator call, read off the logs (class H)"""
    ev = set()
    pre, post = rec["pre"], rec["post"]
    diff = set(post["unassigned"]) - set(pre["unassigned"])
    n_assigned = sum(len(r) for r in pre["routes"])
    if any(x[2] for x in _Sink.ic):
        ev.add("insertion_cost: arrival re-derived (arrival list shorter than pos)")
    if any(x[3] for x in _Sink.ic):
        ev.add("insertion_cost: reads stale arrival times")
    if any(x[4] for x in _Sink.ic):
        ev.add("insertion_cost: capacity reject")
    if any((not x[1]) and not x[4] for x in _Sink.ic):
        ev.add("insertion_cost: time-window reject")
    if name in ("regret_insertion", "sync_aware_insertion"):
        k = args[0] if (name == "regret_insertion" and args) else 2
        run_c, run_f = None, 0
        for x in list(_Sink.ic) + [(None, False, False, False, False)]:
            if x[0] != run_c:
                if run_c is not None and 0 < run_f < k and (name == "regret_insertion" or customers[run_c].required_vehicles == 1):
                    ev.add("regret: fewer than k options (regret 10000)")
                if run_c is not None and run_f == 0 and customers[run_c].required_vehicles <= 1:
                    ev.add("insertion: customer without feasible position")
                run_c, run_f = x[0], 0
            run_f += 1 if x[1] else 0
    samples = [r for kk, r in _Sink.rng if kk == "sample"]
    choices = [r for kk, r in _Sink.rng if kk == "choice"]
    randoms = [r for kk, r in _Sink.rng if kk == "random"]
    if name == "sync_removal" and not choices and samples:
        ev.add("sync_removal: falls back to random_removal")
    if name == "sync_removal" and choices:
        ev.add("sync_removal: target + neighbours")
    if name == "worst_removal" and len(randoms) > len(diff):
        ev.add("worst_removal: pops a customer already selected (visited by two vehicles)")
    if name == "related_removal" and choices:
        deg = args[0] if args else 0.2
        if len(diff) < max(1, int(n_assigned * deg)):
            ev.add("related_removal: runs out of candidates")
    if name == "route_removal" and samples and (args[0] if args else 1) > len(samples[0]):
        ev.add("route_removal: n_routes > non-empty routes")
    if name in REMOVALS and n_assigned == 0:
        ev.add("removal: nothing assigned")
    if name in REMOVALS and any(sum(1 for r in pre["routes"] if c in r) > 1 for c in diff):
        ev.add("removal: strips a customer from two routes")
    multi = [c for c in range(1, len(customers)) if customers[c].required_vehicles > 1]
    if name == "sync_aware_insertion":
        if any(c in post["unassigned"] for c in multi):
            ev.add("sync_aware_insertion: multi-vehicle customer stays unassigned")
        if any(c in pre["unassigned"] and sum(1 for r in post["routes"] if c in r) >= 2 for c in multi):
            ev.add("sync_aware_insertion: multi-vehicle customer placed on all its vehicles")
    if name in ("greedy_insertion", "regret_insertion") and any(c in pre["unassigned"] and c not in post["unassigned"] for c in multi):
        ev.add("greedy/regret: multi-vehicle customer placed on one route")
    return ev


class RecRandom:
    """What the operators and alns use of a random.Random - sample / choice / shuffle / random - delegated to a real
    Random(seed) (same stream as without recording) with every answer logged."""

    def __init__(self, seed=None):
        self._r = _random.Random(seed)

    def sample(self, population, k, **kw):
        r = self._r.sample(population, k, **kw)
        _Sink.rng.append(("sample", [int(x) for x in r]))
        return r

    def choice(self, seq):
        r = self._r.choice(seq)
        _Sink.rng.append(("choice", int(r) if isinstance(r, int) else r))
        return r

    def shuffle(self, x):
        self._r.shuffle(x)
        _Sink.rng.append(("shuffle", list(x)))

    def random(self):
        r = self._r.random()
        _Sink.rng.append(("random", r))
        return r


class RecSet(set):
    """`unassigned` with its iteration order logged (Python-level iteration only: `for c in s`, list(s), comprehensions)."""

    def __iter__(self):
        order = list(set.__iter__(self))
        _Sink.iters.append([int(c) for c in order])
        return iter(order)


class RecList(list):
    def insert(self, pos, c):
        _Sink.ins.append((int(c), self.veh, int(pos), len(self)))
        super().insert(pos, c)


_REC_CLS = {}


def rec_state_class(vrp):
    """Subclass of the working tree's VRPState whose copy() returns a state with insert-logging routes."""
    base = getattr(vrp.VRPState, "_verif_base", vrp.VRPState)
    if base in _REC_CLS:
        return _REC_CLS[base]

    class RecState(base):
        _verif_base = base

        def copy(self):
            s = base.copy(self)
            routes = []
            for v, r in enumerate(s.routes):
                rl = RecList(r)
                rl.veh = v
                routes.append(rl)
            return RecState(customers=s.customers, vehicles=s.vehicles, routes=routes, arrival_times=s.arrival_times,
                            unassigned=RecSet(s.unassigned), sync_assignments=s.sync_assignments, _dist=s._dist)

    _REC_CLS[base] = RecState
    return RecState


def call_op(vrp, orig, name, st, rng, args):
    """Run one exported operator, return (new_state, record)."""
    _Sink.ins, _Sink.rng, _Sink.iters, _Sink.ic = [], [], [], []
    pre = snapshot(st)
    new = orig(st, rng, *args)
    post = snapshot(new)
    rec = {"op": name, "args": list(args), "pre": pre, "post": post, "oracle": derive(name, pre, post, st.customers),
           "foracle": derive_f(name, pre, post, args)}
    rec["events"] = sorted(op_events(name, rec, args, st.customers))
    if snapshot(st) != pre:  # class A: the caller's state (ALNS keeps it as current / best) must not change
        rec["input_modified"] = snapshot(st)
    _Sink.ins, _Sink.rng, _Sink.iters, _Sink.ic = [], [], [], []
    return new, rec


def derive_f(name, pre, post, args):
    """What the operator got from OUTSIDE (rng answers, set iteration orders, n_remove), for the choice-computing
    model SV.C18.VrpChoice.apply_fop."""
    diff = sorted(set(post["unassigned"]) - set(pre["unassigned"]))
    samples = [r for k, r in _Sink.rng if k == "sample"]
    choices = [r for k, r in _Sink.rng if k == "choice"]
    shuffles = [r for k, r in _Sink.rng if k == "shuffle"]
    randoms = [r for k, r in _Sink.rng if k == "random"]
    iters = [list(o) for o in _Sink.iters]
    if name == "random_removal":
        return {"sample": samples[0] if samples else []}
    if name == "worst_removal":
        n = sum(len(r) for r in pre["routes"])
        # idx = min(int(p * len(candidates)), len(candidates) - 1) with p = rng.random() ** 2, one candidate popped per draw
        return {"idxs": [min(int(p ** 2 * (n - j)), n - j - 1) for j, p in enumerate(randoms)]}
    if name == "related_removal":
        return {"nrem": len(diff), "seed": choices[0] if choices else 0}
    if name == "route_removal":
        return {"vs": samples[0] if samples else []}
    if name == "sync_removal":
        return {"target": choices[0] if choices else 0, "sample": samples[0] if samples else []}
    if name == "greedy_insertion":
        return {"order": shuffles[0] if shuffles else []}
    if name == "regret_insertion":
        return {"k": args[0] if args else 2, "orders": iters}
    return {"order": iters[1] if len(iters) > 1 else [], "orders": iters[2:]}


def derive(name, pre, post, customers):
    """The choices the operator made, in the form the model takes them."""
    diff = sorted(set(post["unassigned"]) - set(pre["unassigned"]))
    samples = [r for k, r in _Sink.rng if k == "sample"]
    choices = [r for k, r in _Sink.rng if k == "choice"]
    if name == "random_removal":
        return {"S": sorted(set(samples[0])) if samples else []}
    if name == "worst_removal":
        return {"S": diff}
    if name == "related_removal":
        if not choices:
            return {"S": []}
        return {"S": [choices[0]] + [c for c in diff if c != choices[0]]}
    if name == "route_removal":
        return {"vs": samples[0] if samples else []}
    if name == "sync_removal":
        if choices:
            return {"target": choices[0], "nearby": [c for c in diff if c != choices[0]]}
        if samples:  # fell through to random_removal
            s = sorted(set(samples[0]))
            return {"target": s[0], "nearby": s[1:]}
        return {"target": 0, "nearby": []}
    evs = [[c, v, p] for c, v, p, _ in _Sink.ins]
    if name in ("greedy_insertion", "regret_insertion"):
        return {"evs": evs}
    # sync_aware_insertion: first the multi-resource customers (all their vehicles), then regret_insertion of singles
    k = 0
    while k < len(evs) and customers[evs[k][0]].required_vehicles > 1:
        k += 1
    mevs = []
    for c, v, p in evs[:k]:
        if mevs and mevs[-1][0] == c:
            mevs[-1][1].append([v, p])
        else:
            mevs.append([c, [[v, p]]])
    return {"mevs": mevs, "evs": evs[k:]}


def _args(name, params):
    if name in ("random_removal", "worst_removal", "related_removal"):
        return (params["degree"],) if "degree" in params else ()
    if name == "route_removal":
        return (params["n_routes"],) if "n_routes" in params else ()
    if name == "regret_insertion":
        return (params["k"],) if "k" in params else ()
    return ()


# ---------------------------------------------------------------- implementation runs
def wkw(w):
    return {k: w[k] for k in DEFAULT_W}


def hand_state(RecState, custs, vehs, snap=None, arrivals=None, fresh=False):
    """A VRPState built directly with the public dataclass: no precomputed distance matrix (`_dist` stays None),
    default sync_assignments, fresh containers."""
    fid = _fresh if fresh else (lambda i: i)
    nv = len(vehs)
    if snap is None:
        return RecState(customers=custs, vehicles=vehs, routes=[[] for _ in range(nv)], arrival_times=[[] for _ in range(nv)],
                        unassigned={fid(c.id) for c in custs[1:]})
    return RecState(customers=custs, vehicles=vehs, routes=[[fid(c) for c in r] for r in snap["routes"]],
                    arrival_times=[[float(t) for t in a] for a in arrivals], unassigned={fid(c) for c in snap["unassigned"]})


def _compatible_point(rng, inst, skip=None):
    """an integer point at integer distance from the depot and every customer (except `skip`)"""
    pts = [tuple(inst["depot"])] + [(c["x"], c["y"]) for c in inst["customers"] if c["id"] != skip]
    if any(not isinstance(v, int) for p in pts for v in p):
        return None
    cand = [(x, y) for x in range(-12, 13) for y in range(-12, 13) if all(_int_dist((x, y), p) is not None for p in pts)]
    return rng.choice(cand) if cand else None


def inplace_edit(vrp, name, params, st, inst):
    """Edit the state object in place the way a caller of the public dataclass would; returns (instance after the
    edit, description) or None when the edit does not apply."""
    rng = _random.Random(params.get("r", 0))
    if name == "@move_out":
        routed = sorted({c for r in st.routes for c in r})
        if not routed:
            return None
        c = rng.choice(routed)
        for r in st.routes:
            while c in r:
                r.remove(c)
        st.unassigned.add(c)
        st.update_arrival_times()
        return inst, f"removed customer {c} from its route(s) in place, added it to unassigned"
    if name == "@swap":
        vs = [v for v, r in enumerate(st.routes) if len(r) >= 2]
        if not vs:
            return None
        v = rng.choice(vs)
        i, j = rng.sample(range(len(st.routes[v])), 2)
        st.routes[v][i], st.routes[v][j] = st.routes[v][j], st.routes[v][i]
        st.update_arrival_times()
        return inst, f"swapped stops {i} and {j} of route {v} in place"
    if name == "@recoord":
        if not inst["customers"] or st._dist is not None or inst.get("real"):
            return None
        c = rng.choice(inst["customers"])
        pt = _compatible_point(rng, inst, skip=c["id"])
        if pt is None:
            return None
        new = _copy.deepcopy(inst)
        nc = _cs(new)[c["id"]]
        nc["x"], nc["y"] = pt
        old = st.customers[c["id"]]
        st.customers[c["id"]] = vrp.Customer(old.id, type(old.x)(pt[0]), type(old.y)(pt[1]), old.demand, old.tw_start, old.tw_end,
                                             old.service_time, old.required_vehicles)
        st.update_arrival_times()
        return new, f"replaced state.customers[{c['id']}] by a Customer at {pt} (was ({c['x']}, {c['y']})) in place"
    if name == "@append_customer":
        if st._dist is not None or inst.get("real"):
            return None
        pt = _compatible_point(rng, inst)
        if pt is None:
            return None
        new = _copy.deepcopy(inst)
        cid = len(new["customers"]) + 1
        new["customers"].append({"id": cid, "x": pt[0], "y": pt[1], "demand": rng.randint(0, 3), "tw_start": 0, "tw_end": None,
                                 "service_time": rng.choice([0, 1]), "required_vehicles": rng.choice([1, 1, 2])})
        nc = new["customers"][-1]
        st.customers.append(vrp.Customer(cid, float(pt[0]), float(pt[1]), float(nc["demand"]), 0.0, float("inf"), float(nc["service_time"]),
                                         nc["required_vehicles"]))
        st.unassigned.add(cid)
        return new, f"appended Customer {cid} at {pt} to state.customers in place and added it to unassigned"
    return None


def state_events(inst, snap, parts):
    ev = set()
    if parts["late"] > 0:
        ev.add("state: late arrivals")
    if parts["overload"] > 0:
        ev.add("state: overloaded vehicle")
    if parts["sync_missing"]:
        ev.add("state: multi-vehicle customer misses vehicles")
    if parts["sync_spread"]:
        ev.add("state: multi-vehicle customer visited at different times")
    cs = {c["id"]: c for c in inst["customers"]}
    for r, a in zip(snap["routes"], snap["arrivals"]):
        for c, t in zip(r, a):
            if cs[c]["tw_end"] is not None and _eq(t, cs[c]["tw_end"], inst.get("real")):
                ev.add("state: arrival exactly at tw_end")
    return ev


def run_seq(case):
    """Operator sequence from the solver's initial state (or a hand-built one).  Stops at the first step the oracle
    rejects (a later operator would run on an inconsistent state, which is outside the contract)."""
    import importlib

    vrp = importlib.import_module("solvor.vrp")
    saved_ic = vrp._insertion_cost if hasattr(vrp, "_insertion_cost") and not case.get("no_ic") else None
    if saved_ic is not None:
        vrp._insertion_cost = ic_wrapper(saved_ic)
    try:
        out = _run_seq(vrp, case)
    finally:
        if saved_ic is not None:
            vrp._insertion_cost = saved_ic
    if out["bad"] or not out["steps"]:
        return out
    posts = [s["post"] for s in out["steps"]]
    if case.get("twice"):  # class A: the answer does not depend on earlier calls
        o2 = _run_seq(vrp, case)
        if [s["post"] for s in o2["steps"]] != posts:
            out["bad"] = "the same operator sequence on the same input (same rng seed) gave different states the second time"
    if case.get("twin") and not out["bad"]:  # hand-built and from_problem states are the same states
        o2 = _run_seq(vrp, {**case, "start": "from_problem", "rebuild_at": [], "norm_at": list(case.get("rebuild_at") or [])})
        p2 = [s["post"] for s in o2["steps"]]
        if p2 != posts:
            k = next((i for i, (a, b) in enumerate(zip(posts, p2)) if a != b), min(len(posts), len(p2)))
            out["bad"] = (f"step {k} {case['plan'][k][0]}: a state built with the VRPState dataclass behaves differently from the "
                          f"from_problem state with the same fields: {posts[k] if k < len(posts) else None} vs {p2[k] if k < len(p2) else None}")
    return out


def _run_seq(vrp, case):
    inst = case["inst"]
    real = inst.get("real")
    out = {"steps": [], "bad": None, "init": None, "events": set()}
    RecState = rec_state_class(vrp)
    fresh = case.get("fresh_ids", False)
    custs, vehs = build(vrp, inst, fresh)
    start = case.get("start", "from_problem")
    if start == "from_problem":
        res = guarded(RecState.from_problem, custs, vehs, timeout=5)
    elif start == "hand":
        res = guarded(hand_state, RecState, custs, vehs, timeout=5)
    else:
        s0 = case["state0"]
        res = guarded(hand_state, RecState, custs, vehs, s0, [arrivals_from_scratch(inst, r) for r in s0["routes"]], fresh, timeout=5)
    if res[0] != "ok":
        out["bad"] = f"building the initial VRPState ({start}): {res}"
        return out
    st = res[1]
    out["init"] = snapshot(st)
    errs = check_state(inst, out["init"])
    if errs:
        out["bad"] = f"initial VRPState ({start}): {errs[0]}"
        return out
    dm = dist_matrix(inst)
    n = len(dm)
    pairs = [(i, j) for i in range(n) for j in range(n)] if n <= 12 else [((7 * k) % n, (13 * k + 1) % n) for k in range(150)]
    dist_bad = None
    for i, j in pairs:
        if real and i == j:
            continue  # from_problem never computes the diagonal (0.0); hypot(inf - inf) would be nan - never used by a route
        r = guarded(st.dist, i, j, timeout=5)
        if r[0] != "ok" or not _eq(canon_num(r[1]), canon_num(dm[i][j]), real):
            dist_bad = f"VRPState.dist({i}, {j}) = {r[1:]} on a state built by {start}, the Euclidean distance of the two locations is {dm[i][j]}"
            break
    history = [(st, out["init"])]
    rng = RecRandom(case["seed"])
    rebuild = set(case.get("rebuild_at") or [])
    norm_at = set(case.get("norm_at") or [])
    big = len(inst["customers"]) > 50 or len(inst["caps"]) > 50
    a2_pending = None
    for k, (name, params) in enumerate(case["plan"]):
        if name.startswith("@"):  # class A2: the caller edits the state object in place between two operator calls
            r = guarded(inplace_edit, vrp, name, params, st, inst, timeout=5)
            if r[0] != "ok":
                out["bad"] = f"step {k}: in-place edit {name} of the state through its public fields: {r}"
                return out
            if r[1] is None:
                continue
            inst, what = r[1]
            out["inst_final"] = inst
            out["events"].add(f"in-place edit: {name[1:]}")
            snap = snapshot(st)
            errs = check_state(inst, snap)
            if not errs:
                parts = objective_parts(inst, snap)
                o1 = guarded(vrp.vrp_objective, st, timeout=5, **wkw(case["weights"]))
                o2 = guarded(vrp.vrp_objective, _copy.deepcopy(st), timeout=5, **wkw(case["weights"]))
                want = canon_num(objective_formula(inst, case["weights"], snap, parts))
                if o1[0] != "ok" or o2[0] != "ok" or not _eq(canon_num(o1[1]), want, real) or canon_num(o1[1]) != canon_num(o2[1]):
                    errs = [f"vrp_objective(state) = {o1[1:]}, on a deep copy {o2[1:]}, the documented weighted sum of the edited state is {want}"]
                else:
                    m = methods_check(inst, st, snap, parts)
                    if m:
                        errs = [m]
            if errs:
                out["bad"] = (f"step {k}: after the caller {what} and called update_arrival_times() (state now routes {_short(snap['routes'])} "
                              f"unassigned {_short(snap['unassigned'])} arrival_times {_short(snap['arrivals'])}): {errs[0]}")
                return out
            history = [(st, snap)]  # earlier states share the (edited) customers list; only this one is tracked from here
            a2_pending = what
            continue
        if k in norm_at:
            # reference run of the twin check: the hand-built twin gets, at this step, an `unassigned` set freshly built from the
            # sorted ids; the iteration order of a CPython set depends on its insertion / deletion history, and the insertion
            # operators break ties by that order - so the reference gets the same fresh set (a caller may assign the public field)
            st.unassigned = {c for c in snapshot(st)["unassigned"]}
        if k in rebuild:  # class A: re-build the state from its public fields with the dataclass constructor
            st = hand_state(RecState, custs, vehs, snapshot(st), [list(a) for a in st.arrival_times], fresh)
            history.append((st, snapshot(st)))
        orig = getattr(vrp, name)
        ref = None
        if a2_pending:
            ref = guarded(lambda: snapshot(orig(_copy.deepcopy(st), _copy.deepcopy(rng), *_args(name, params))), timeout=5)
        res = guarded(call_op, vrp, orig, name, st, rng, _args(name, params), timeout=150 if big else 5)
        if res[0] == "exc" and inst.get("nonfinite"):
            out["events"].add("raises on inf / NaN input")  # acceptable: the input is outside the numbers the operators can order
            return out
        if res[0] != "ok":
            out["steps"].append({"op": name, "args": list(_args(name, params)), "pre": snapshot(st), "post": None, "oracle": None})
            out["bad"] = f"step {k} {name}{tuple(_args(name, params))}: implementation {res[0]} {res[1:]}"
            return out
        if ref is not None:
            if ref[0] != "ok" or ref[1] != res[1][1]["post"]:
                out["steps"].append(res[1][1])
                out["bad"] = (f"step {k} {name}{tuple(_args(name, params))} after the caller {a2_pending}: on the edited object -> routes "
                              f"{_short(res[1][1]['post']['routes'])} unassigned {_short(res[1][1]['post']['unassigned'])}, on a deep copy of it -> "
                              f"{_short(ref[1]) if ref[0] == 'ok' else ref}")
                return out
            a2_pending = None
        st, rec = res[1]
        history.append((st, rec["post"]))
        r2 = guarded(vrp.vrp_objective, st, timeout=60 if big else 5, **wkw(case["weights"]))
        rec["obj"] = canon_num(r2[1]) if r2[0] == "ok" else None
        out["steps"].append(rec)
        where = f"step {k} after {name}{tuple(_args(name, params))} on routes {_short(rec['pre']['routes'])} unassigned {_short(rec['pre']['unassigned'])}"
        errs = check_state(inst, rec["post"])
        if not errs and "input_modified" in rec:
            errs = [f"the operator modified the state it was given: routes {_short(rec['input_modified']['routes'])} unassigned "
                    f"{_short(rec['input_modified']['unassigned'])} arrival_times {_short(rec['input_modified']['arrivals'])}"]
        if not errs and r2[0] != "ok":
            errs = [f"vrp_objective: {r2}"]
        if not errs:
            parts = objective_parts(inst, rec["post"])
            want = canon_num(objective_formula(inst, case["weights"], rec["post"], parts))
            if not _eq(rec["obj"], want, real):
                errs = [f"vrp_objective(state) = {rec['obj']} but the documented weighted sum of the state is {want}"]
            else:
                r3 = guarded(vrp.vrp_objective, st.copy(), timeout=60 if big else 5, **wkw(case["weights"]))
                if r3[0] != "ok" or canon_num(r3[1]) != rec["obj"]:
                    errs = [f"vrp_objective(state.copy()) = {r3[1:]} but vrp_objective(state) = {rec['obj']}"]
            if not errs:
                m = methods_check(inst, st, rec["post"], parts)
                if m:
                    errs = [m]
            rec["events"] = sorted(set(rec["events"]) | state_events(inst, rec["post"], parts))
            out["events"].update(rec["events"])
        if errs:
            out["bad"] = f"{where}: {errs[0]}"
            return out
    for obj, snap in history:  # no state handed out earlier was changed by a later operator
        if snapshot(obj) != snap:
            out["bad"] = (f"a state returned earlier (routes {_short(snap['routes'])} unassigned {_short(snap['unassigned'])}) changed "
                          f"while later operators ran: now routes {_short(snapshot(obj)['routes'])} arrival_times {_short(snapshot(obj)['arrivals'])}")
            return out
    if dist_bad:
        out["bad"] = dist_bad
    return out


def _short(x, n=14):
    s = json.dumps(x)
    return s if len(s) < 300 else s[:300] + " ..."


def _min_len(c):
    if c["required_vehicles"] != 1:
        return 8
    if c["service_time"] != 0:
        return 7
    if c["tw_end"] is not None:
        return 6
    if c["tw_start"] != 0:
        return 5
    return 4 if c["demand"] != 0 else 3


def solve_args(vrp, case, custs, vehs):
    """the call forms of solve_vrptw (class I / L): Customer objects or tuples (id, x, y[, demand[, tw_start[, tw_end[,
    service_time[, required_vehicles]]]]]), list or tuple; vehicles as int (+ vehicle_capacity), list or tuple"""
    inst = case["inst"]
    forms = case.get("cust_forms") or ["obj"] * len(inst["customers"])
    cl = []
    for c, ic, form in zip(custs[1:], inst["customers"], forms):
        if form == "obj":
            cl.append(c)
        else:
            full = (c.id, c.x, c.y, c.demand, c.tw_start, c.tw_end, c.service_time, c.required_vehicles)
            cl.append(full if form == "tuple8" else full[:_min_len(ic)])
    customers = tuple(cl) if case.get("container") == "tuple" else cl
    kw = {}
    vf = case.get("vehicles_form", "list")
    if vf == "int":
        vehicles = len(vehs)
        if vehs and vehs[0].capacity != float("inf"):
            kw["vehicle_capacity"] = vehs[0].capacity
    else:
        vehicles = tuple(vehs) if vf == "tuple" else list(vehs)
    depot = (custs[0].x, custs[0].y)
    if case.get("depot_form") == "list":
        depot = list(depot)
    return customers, vehicles, depot, kw


def mutate_inst(rng, inst):
    """another instance of the same kind: one customer elsewhere / one customer more / one customer fewer"""
    new = _copy.deepcopy(inst)
    kind = rng.choice(["recoord", "recoord", "append", "pop"])
    if kind == "pop" and len(new["customers"]) >= 2:
        new["customers"].pop()
        return new, "removed the last customer"
    if kind == "append":
        pt = _compatible_point(rng, new)
        if pt is not None:
            cid = len(new["customers"]) + 1
            new["customers"].append({"id": cid, "x": pt[0], "y": pt[1], "demand": rng.randint(0, 3), "tw_start": 0, "tw_end": None,
                                     "service_time": 0, "required_vehicles": rng.choice([1, 2])})
            return new, f"appended customer {cid} at {pt}"
    if new["customers"]:
        c = rng.choice(new["customers"])
        pt = _compatible_point(rng, new, skip=c["id"])
        if pt is not None and pt != (c["x"], c["y"]):
            c["x"], c["y"] = pt
            return new, f"replaced customer {c['id']} by one at {pt}"
    return None, None


def run_solve_inplace(case):
    """class A2: solve, then edit the SAME customers / vehicles list objects in place, solve again; the second answer must
    be the answer of a call on freshly built objects"""
    import importlib

    vrp = importlib.import_module("solvor.vrp")
    rng = _random.Random(case["seed"])
    case = {**case, "container": "list", "vehicles_form": "list"}
    custs, vehs = build(vrp, case["inst"])
    args = list(solve_args(vrp, case, custs, vehs))
    out1 = _run_solve(case, prebuilt=args)
    if out1["bad"] or not out1["result"]:
        return out1
    inst2, what = mutate_inst(rng, case["inst"])
    if inst2 is None:
        return out1
    case2 = {**case, "inst": inst2, "cust_forms": None, "weights": case["weights"]}
    c2, v2 = build(vrp, inst2)
    a2 = solve_args(vrp, case2, c2, v2)
    args[0][:] = a2[0]  # same list object, new content
    if rng.random() < 0.5:
        args[1][:] = [vrp.Vehicle(v.id, v.capacity) for v in v2][::-1][::-1]
    out2 = _run_solve(case2, prebuilt=args)
    fresh = _run_solve(case2)
    out2["events"].add("in-place edit of the customers list between two solves")
    out2["case2"] = case2
    if not out2["bad"] and out2["result"] != fresh["result"]:
        out2["bad"] = (f"solve_vrptw: after a first solve the caller {what} IN PLACE (same list object) and solved again: {out2['result']}; "
                       f"the same call on freshly built lists gives {fresh['result']}")
    return out2


def run_solve(case):
    """solve_vrptw end to end with the exported operators, VRPState and Random wrapped for recording."""
    if case.get("inplace"):
        return run_solve_inplace(case)
    out = _run_solve(case)
    if case.get("twice") and not out["bad"] and out["result"]:
        # class A: the same call again (after an unrelated solve in between) gives the same answer
        other = {**case, "inst": _wit_inst(1, 10), "cust_forms": None, "vehicles_form": "list", "max_iter": 5, "twice": False}
        _run_solve(other)
        o2 = _run_solve(case)
        if o2["result"] != out["result"]:
            out["bad"] = f"solve_vrptw: the same call gave {out['result']} the first time and {o2['result']} after another solve in between"
    return out


def _run_solve(case, prebuilt=None):
    import importlib

    lns = importlib.import_module("solvor.lns")  # `solvor.lns` the attribute is the function lns
    vrp = importlib.import_module("solvor.vrp")

    inst = case["inst"]
    real = inst.get("real")
    out = {"bad": None, "records": [], "result": None, "acc": [], "iters": None, "events": set()}
    RecState = rec_state_class(vrp)
    custs, vehs = build(vrp, inst)
    records, keep = [], []
    origs = {name: getattr(vrp, name) for name in OPS}

    def wrap(name):
        orig = origs[name]

        def w(st, rng, *args, **kwargs):
            if kwargs:  # the solver may bind operator parameters by keyword (partial(random_removal, degree=0.1)): same call
                ba = _inspect.signature(orig).bind(st, rng, *args, **kwargs)
                args = tuple(ba.args[2:])
            if _Sink.depth > 0:  # sync_removal -> random_removal, sync_aware_insertion -> regret_insertion
                return orig(st, rng, *args)
            _Sink.depth += 1
            try:
                new, rec = call_op(vrp, orig, name, st, rng, args)
            finally:
                _Sink.depth -= 1
            rec["pre_id"], rec["post_id"] = id(st), id(new)
            keep.extend([st, new])  # keep the objects alive: ids stay unique
            records.append(rec)
            return new

        return w

    calls = []
    kw = {}
    op = case.get("on_progress")
    if op:
        def cb(p):
            calls.append((p.iteration, canon_num(p.objective), None if p.best is None else canon_num(p.best)))
            if p.iteration >= op["k"]:
                return True if op.get("ret", "true") == "true" else None
            return False if len(calls) % 2 else None

        kw["on_progress"] = cb
        kw["progress_interval"] = op["interval"]
    customers, vehicles, depot, kw2 = prebuilt if prebuilt is not None else solve_args(vrp, case, custs, vehs)
    kw.update(kw2)
    before = (_copy.deepcopy(customers), _copy.deepcopy(vehicles), _copy.deepcopy(depot))
    saved = {"VRPState": vrp.VRPState, "vrpRandom": vrp.Random, "lnsRandom": lns.Random, "ic": getattr(vrp, "_insertion_cost", None)}
    try:
        for name in OPS:
            setattr(vrp, name, wrap(name))
        vrp.VRPState = RecState
        vrp.Random = RecRandom
        lns.Random = RecRandom
        if saved["ic"] is not None and not case.get("no_ic"):
            vrp._insertion_cost = ic_wrapper(saved["ic"])
        w = case["weights"]
        res = guarded(vrp.solve_vrptw, customers, vehicles, depot,
                      distance_weight=w["distance_weight"], vehicle_weight=w["vehicle_weight"], tw_penalty=w["tw_penalty"],
                      capacity_penalty=w["capacity_penalty"], sync_penalty=w["sync_penalty"],
                      max_iter=case["max_iter"], max_no_improve=case["max_no_improve"], seed=case["seed"],
                      timeout=30 if case["max_iter"] <= 2000 else 120, **kw)
    finally:
        for name in OPS:
            setattr(vrp, name, origs[name])
        vrp.VRPState = saved["VRPState"]
        vrp.Random = saved["vrpRandom"]
        lns.Random = saved["lnsRandom"]
        if saved["ic"] is not None:
            vrp._insertion_cost = saved["ic"]
        _Sink.depth = 0
    out["records"] = [{k: v for k, v in r.items() if k not in ("pre_id", "post_id")} for r in records]
    if res[0] == "exc" and inst.get("nonfinite"):
        out["events"].add("raises on inf / NaN input")
        return out
    if res[0] != "ok":
        out["bad"] = f"solve_vrptw: implementation {res[0]} {res[1:]}"
        return out
    r = res[1]
    sol = r.solution
    if not hasattr(sol, "routes"):
        out["bad"] = f"solve_vrptw: solution is {type(sol).__name__}"
        return out
    out["result"] = {"state": snapshot(sol), "objective": canon_num(r.objective), "status": r.status.name, "iterations": r.iterations}
    out["progress_calls"] = calls
    if (customers, vehicles, depot) != before:
        out["bad"] = "solve_vrptw modified its arguments (customers / vehicles / depot)"
        return out
    # accepted? = the next destroy operator was handed this iteration's candidate
    n_it = (len(records) - 1) // 2
    acc = []
    for i in range(n_it):
        cand_id = records[2 + 2 * i]["post_id"]
        nxt = records[3 + 2 * i]["pre_id"] if 3 + 2 * i < len(records) else None
        acc.append(nxt == cand_id)
    out["acc"] = acc
    out["shape_ok"] = len(records) >= 1 and len(records) % 2 == 1 and records[0]["op"] == "greedy_insertion" and \
        all(records[1 + 2 * i]["op"] in REMOVALS and records[2 + 2 * i]["op"] in INSERTIONS for i in range(n_it))
    # every state the search went through obeys the contract, and the result is honestly scored
    objs = []
    for k, rec in enumerate(out["records"]):
        errs = check_state(inst, rec["post"])
        if not errs and "input_modified" in rec:
            errs = [f"the operator modified the state it was given (the search keeps it as current / best): now routes "
                    f"{_short(rec['input_modified']['routes'])} unassigned {_short(rec['input_modified']['unassigned'])}"]
        if errs:
            out["bad"] = f"solve_vrptw: after operator call {k} ({rec['op']}) on routes {rec['pre']['routes']} unassigned {rec['pre']['unassigned']}: {errs[0]}"
            return out
        out["events"].update(rec.get("events", []))
        objs.append(objective_formula(inst, w, rec["post"]))
    errs = check_state(inst, out["result"]["state"])
    if not errs:
        want = canon_num(objective_formula(inst, w, out["result"]["state"]))
        if not _eq(out["result"]["objective"], want, real):
            errs = [f"objective {out['result']['objective']} but the documented weighted sum of the returned state is {want}"]
    if not errs and out["shape_ok"] and objs:
        cands = [objs[0]] + [objs[2 + 2 * i] for i in range(n_it)]
        # events of the ALNS loop (class H)
        cur = best = cands[0]
        for i in range(n_it):
            co = cands[1 + i]
            if co < best:
                out["events"].add("alns: new best")
                best = cur = co
            elif co < cur:
                out["events"].add("alns: better than current, not best")
                cur = co
            elif acc[i]:
                out["events"].add("alns: worse candidate accepted" if co > cur else "alns: equal candidate accepted")
                cur = co
            elif i + 1 < n_it:
                out["events"].add("alns: candidate rejected")
        if n_it >= 100:
            out["events"].add("alns: operator weights updated (iteration 100)")
        # class W: the main loop runs until max_iter or until max_no_improve iterations passed without a new best (or the
        # call-back stops it) - not fewer, not more (the scores are exact integers here, so the replay below is exact)
        if not real and op is None and not errs:
            best, best_iter = cands[0], 0
            for i in range(1, n_it + 1):
                if cands[i] < best:
                    best, best_iter = cands[i], i
                if i - best_iter >= case["max_no_improve"] and i < n_it:
                    errs = [f"{n_it} iterations run although iteration {i} was already {i - best_iter} iterations after the last new best "
                            f"(iteration {best_iter}) with max_no_improve={case['max_no_improve']}"]
                    break
            if not errs and n_it < case["max_iter"] and n_it - best_iter < case["max_no_improve"]:
                errs = [f"the search stopped after {n_it} of max_iter={case['max_iter']} iterations, {n_it - best_iter} iterations after its "
                        f"last new best (iteration {best_iter}), with max_no_improve={case['max_no_improve']} and no call-back"]
            if not errs and n_it > max(0, case["max_iter"]):
                errs = [f"{n_it} iterations run with max_iter={case['max_iter']}"]
            if not errs and out["result"]["iterations"] != n_it:
                errs = [f"{out['result']['iterations']} iterations reported, {n_it} (destroy, repair) pairs run"]
        if op is None and n_it < case["max_iter"]:
            out["events"].add("alns: stops on max_no_improve")
    if not errs and op is not None:
        # on_progress: called every `interval` iterations (never when interval is 0); a true answer stops the search
        it = out["result"]["iterations"]
        want_calls = [i for i in range(1, it + 1) if op["interval"] > 0 and i % op["interval"] == 0]
        if [c[0] for c in calls] != want_calls:
            errs = [f"on_progress called at iterations {[c[0] for c in calls]}, expected {want_calls} (interval {op['interval']}, {it} iterations)"]
        stop_ret = op.get("ret", "true") == "true"
        if not errs and calls and calls[-1][0] >= op["k"] and stop_ret and it != calls[-1][0]:
            errs = [f"on_progress returned {stop_ret!r} at iteration {calls[-1][0]} but the search ran {it} iterations"]
        if not errs and calls and stop_ret and calls[-1][0] >= op["k"]:
            out["events"].add("alns: stopped by on_progress")
        if not errs and n_it != it:
            errs = [f"{it} iterations reported, {n_it} (destroy, repair) pairs run"]
    if errs:
        out["bad"] = f"solve_vrptw result: {errs[0]}"
    return out


# ---------------------------------------------------------------- independent oracle (the contract)
_CS_CACHE = {}


def _cs(inst):
    """customers by id (cached per instance object: big instances are looked up thousands of times)"""
    key = id(inst["customers"])
    hit = _CS_CACHE.get(key)
    if hit is None or hit[0] is not inst["customers"] or len(hit[1]) != len(inst["customers"]):
        if len(_CS_CACHE) > 200:
            _CS_CACHE.clear()
        hit = (inst["customers"], {c["id"]: c for c in inst["customers"]})
        _CS_CACHE[key] = hit
    return hit[1]


def arrivals_from_scratch(inst, route):
    """leave the depot at time 0, travel = Euclidean distance, wait until tw_start, arrival is recorded after
    waiting, then service_time, then travel to the next customer"""
    if not route:
        return []
    dm = dist_matrix(inst)
    cs = _cs(inst)
    out = []
    t, prev = 0, 0
    for c in route:
        t = max(t + dm[prev][c], cs[c]["tw_start"])
        out.append(t)
        t += cs[c]["service_time"]
        prev = c
    return out


def check_state(inst, snap):
    errs = []
    ids = [c["id"] for c in inst["customers"]]
    cs = {c["id"]: c for c in inst["customers"]}
    routes, un, arr = snap["routes"], snap["unassigned"], snap["arrivals"]
    nveh = len(inst["caps"])
    if len(routes) != nveh or len(arr) != nveh:
        return [f"{len(routes)} routes / {len(arr)} arrival lists for {nveh} vehicles"]
    if len(set(un)) != len(un):
        errs.append(f"unassigned has duplicates: {un}")
    for r in routes:
        for c in r:
            if c not in cs:
                errs.append(f"route {r} visits {c}, which is not a customer")
    for c in un:
        if c not in cs:
            errs.append(f"unassigned contains {c}, which is not a customer")
    if errs:
        return errs
    on_map = {}
    for v, r in enumerate(routes):
        cnt = {}
        for c in r:
            cnt[c] = cnt.get(c, 0) + 1
        for c, k in cnt.items():
            on_map.setdefault(c, []).append(v)
            if k > 1:
                errs.append(f"customer {c} is {k} times on route {v}")
    unset = set(un)
    for cid in ids:
        on = on_map.get(cid, [])
        if cid in unset and on:
            errs.append(f"customer {cid} is in unassigned AND on route(s) {on}")
        if cid not in unset and not on:
            errs.append(f"customer {cid} is lost: neither in unassigned nor on a route")
        if cs[cid]["required_vehicles"] <= 1 and len(on) > 1:
            errs.append(f"single-vehicle customer {cid} is on routes {on}")
    real = inst.get("real")
    for v, r in enumerate(routes):
        if not r and not arr[v]:
            continue
        want = [canon_num(t) for t in arrivals_from_scratch(inst, r)]
        if len(arr[v]) != len(want) or not all(_eq(a, b, real) for a, b in zip(arr[v], want)):
            errs.append(f"arrival_times[{v}] = {arr[v][:12]} but route {r[:12]} (travel, waiting, service from the coordinates) gives {want[:12]}")
    return errs


def objective_parts(inst, snap):
    """total distance, vehicles used, total lateness, total overload, sync violation (1000 per missing vehicle of a
    multi-vehicle customer, else the spread of its arrival times) - everything recomputed from the routes and the
    coordinates (arrival times from scratch)."""
    dm = dist_matrix(inst)
    cs = {c["id"]: c for c in inst["customers"]}
    routes = snap["routes"]
    dist = 0
    for r in routes:
        path = [0] + list(r) + [0]
        dist += sum(dm[a][b] for a, b in zip(path, path[1:])) if r else 0
    used = sum(1 for r in routes if r)
    arr = [arrivals_from_scratch(inst, r) for r in routes]
    late = 0
    for r, a in zip(routes, arr):
        for c, t in zip(r, a):
            if cs[c]["tw_end"] is not None and t > cs[c]["tw_end"]:
                late += t - cs[c]["tw_end"]
    overload = 0
    for cap, r in zip(inst["caps"], routes):
        load = sum(cs[c]["demand"] for c in r)
        if cap is not None and load > cap:
            overload += load - cap
    sync = 0
    missing = spread = False
    for cid, c in cs.items():
        req = c["required_vehicles"]
        if req <= 1:
            continue
        times = [a[r.index(cid)] for r, a in zip(routes, arr) if cid in r]
        if len(times) < req:
            sync += (req - len(times)) * 1000
            missing = True
        elif len(times) > 1:
            sync += max(times) - min(times)
            spread = spread or max(times) != min(times)
    return {"dist": dist, "used": used, "late": late, "overload": overload, "sync": sync, "sync_missing": missing, "sync_spread": spread}


def objective_formula(inst, w, snap, parts=None):
    """distance_weight * total distance + vehicle_weight * vehicles used + tw_penalty * total lateness
    + capacity_penalty * total overload + sync_penalty * sync violation + unassigned_penalty * #unassigned"""
    p = parts or objective_parts(inst, snap)
    return (w["distance_weight"] * p["dist"] + w["vehicle_weight"] * p["used"] + w["tw_penalty"] * p["late"]
            + w["capacity_penalty"] * p["overload"] + w["sync_penalty"] * p["sync"] + w["unassigned_penalty"] * len(snap["unassigned"]))


def methods_check(inst, st, snap, parts):
    """the public scoring methods of VRPState on this state against the oracle's parts"""
    real = inst.get("real")
    for name, want in (("total_distance", parts["dist"]), ("vehicles_used", parts["used"]), ("time_window_violation", parts["late"]),
                       ("capacity_violation", parts["overload"]), ("sync_violation", parts["sync"])):
        r = guarded(getattr(st, name), timeout=60)
        if r[0] != "ok":
            return f"VRPState.{name}(): {r}"
        if not _eq(canon_num(r[1]), canon_num(want), real):
            return f"VRPState.{name}() = {r[1]} but the state has {want}"
    if not all(_finite(parts[k]) for k in ("late", "overload", "sync")):
        return None
    r = guarded(st.is_feasible, timeout=5)
    feas = not snap["unassigned"] and (parts["late"] < 1e-6 and parts["overload"] < 1e-6 and parts["sync"] < 1e-6)
    margin = real and any(abs(parts[k] - 1e-6) < 1e-8 for k in ("late", "overload", "sync"))
    if r[0] != "ok" or (bool(r[1]) != feas and not margin):
        return f"VRPState.is_feasible() = {r[1:]} but unassigned {snap['unassigned']}, lateness {parts['late']}, overload {parts['overload']}, sync violation {parts['sync']}"
    return None


# ---------------------------------------------------------------- Coq terms
def c_inst(inst):
    rows = [f"mkCust 0%Z 0%Z None 0%Z 1%nat"]
    for c in inst["customers"]:
        rows.append(f"mkCust {cz(c['demand'])} {cz(c['tw_start'])} {copt(c['tw_end'], cz)} {cz(c['service_time'])} {cnat(c['required_vehicles'])}")
    dm = dist_matrix(inst)
    return f"(mkInst {clist(rows)} {clist(dm, lambda r: clist(r, cz))} {clist(inst['caps'], lambda c: copt(c, cz))})"


def c_weights(w):
    return "(mkW " + " ".join(cz(w[k]) for k in ("distance_weight", "vehicle_weight", "tw_penalty", "capacity_penalty",
                                                 "sync_penalty", "unassigned_penalty")) + ")"


def snap_ok(snap):
    return all(isinstance(t, int) and not isinstance(t, bool) for a in snap["arrivals"] for t in a) and \
        all(c >= 0 for r in snap["routes"] for c in r) and all(c >= 0 for c in snap["unassigned"])


def c_state(snap):
    return (f"(mkSt {clist(snap['routes'], lambda r: clist(r, cnat))} {clist(snap['unassigned'], cnat)} "
            f"{clist(snap['arrivals'], lambda a: clist(a, cz))})")


def c_evs(evs):
    return clist(evs, lambda e: f"({cnat(e[0])}, {cnat(e[1])}, {cnat(e[2])})")


def c_op(rec):
    name, o = rec["op"], rec["oracle"]
    if name == "random_removal":
        return f"RandomRemoval {clist(o['S'], cnat)}"
    if name == "worst_removal":
        return f"WorstRemoval {clist(o['S'], cnat)}"
    if name == "related_removal":
        return f"RelatedRemoval {clist(o['S'], cnat)}"
    if name == "route_removal":
        return f"RouteRemoval {clist(o['vs'], cnat)}"
    if name == "sync_removal":
        return f"SyncRemoval {cnat(o['target'])} {clist(o['nearby'], cnat)}"
    if name == "greedy_insertion":
        return f"GreedyInsertion {c_evs(o['evs'])}"
    if name == "regret_insertion":
        return f"RegretInsertion {c_evs(o['evs'])}"
    mevs = clist(o["mevs"], lambda m: f"({cnat(m[0])}, {clist(m[1], lambda vp: f'({cnat(vp[0])}, {cnat(vp[1])})')})")
    return f"SyncAwareInsertion {mevs} {c_evs(o['evs'])}"


def c_fop(rec):
    name, o = rec["op"], rec["foracle"]
    ll = lambda xs: clist(xs, lambda x: clist(x, cnat))  # noqa: E731
    if name == "random_removal":
        return f"FRandomRemoval {clist(o['sample'], cnat)}"
    if name == "worst_removal":
        return f"FWorstRemoval {clist(o['idxs'], cnat)}"
    if name == "related_removal":
        return f"FRelatedRemoval {cnat(o['nrem'])} {cnat(o['seed'])}"
    if name == "route_removal":
        return f"FRouteRemoval {clist(o['vs'], cnat)}"
    if name == "sync_removal":
        return f"FSyncRemoval {cnat(o['target'])} {clist(o['sample'], cnat)}"
    if name == "greedy_insertion":
        return f"FGreedyInsertion {clist(o['order'], cnat)}"
    if name == "regret_insertion":
        return f"FRegretInsertion {cnat(o['k'])} {ll(o['orders'])}"
    return f"FSyncAwareInsertion {clist(o['order'], cnat)} {ll(o['orders'])}"


def coq_steps(out):
    """the steps replayed through the models: all of them, except route_removal(n_routes=0) - the models guard
    `rng.sample` answers to be non-empty; the call is the identity (checked here) and is skipped in the chain"""
    steps = []
    for s in out["steps"]:
        if s["post"] is None:
            continue
        if s["op"] == "route_removal" and s["args"] and s["args"][0] == 0 and s["pre"] == s["post"]:
            continue
        steps.append(s)
    return steps


def c_ftrace_case(case, out):
    steps = clist(coq_steps(out), lambda s: f"({c_fop(s)}, {c_state(s['post'])})")
    return f"({c_inst(case['inst'])}, {c_state(out['init'])}, {steps})"


def c_trace_case(case, out):
    steps = clist(coq_steps(out), lambda s: f"({c_op(s)}, {c_state(s['post'])})")
    return f"({c_inst(case['inst'])}, {c_state(out['init'])}, {steps})"


def c_solve_case(case, out):
    recs = out["records"]
    n_it = (len(recs) - 1) // 2
    its = clist(range(n_it), lambda i: f"({c_op(recs[1 + 2 * i])}, {c_op(recs[2 + 2 * i])}, {cbool(out['acc'][i])})")
    return (f"({c_weights(case['weights'])}, {c_inst(case['inst'])}, {c_evs(recs[0]['oracle']['evs'])}, {its}, "
            f"{c_state(out['result']['state'])}, {cz(out['result']['objective'])})")


def c_spec_case(inst, w, snap, obj):
    return f"({c_weights(w)}, {c_inst(inst)}, {c_state(snap)}, {cz(obj)})"


# ---------------------------------------------------------------- shrinking / replay
def _seq_bad(case):
    return run_seq(case)["bad"]


def shrink_seq(case):
    """Cut the plan after the failing step, then drop earlier operators (not the initial greedy_insertion) and
    customers while it still fails."""
    import time

    deadline = time.time() + 30  # a hanging operator costs 5 s per attempt
    cur = json.loads(json.dumps(case))
    out = run_seq(cur)
    if not out["bad"]:
        return cur
    cur["plan"] = cur["plan"][:max(1, len(out["steps"]))]
    changed = True
    rounds = 0
    while changed and rounds < 40 and time.time() < deadline:
        changed = False
        rounds += 1
        first = 0 if (cur.get("from_empty") or cur.get("start") == "state0") else 1
        for k in range(first, len(cur["plan"]) - 1):
            if time.time() > deadline:
                break
            c = json.loads(json.dumps(cur))
            del c["plan"][k]
            if c.get("rebuild_at"):
                c["rebuild_at"] = sorted({r if r <= k else r - 1 for r in c["rebuild_at"]})
            if _seq_bad(c):
                cur, changed = c, True
                break
        if changed:
            continue
        for key in ("twice", "twin"):  # drop the metamorphic re-runs if the plain run already fails
            if cur.get(key) and not changed:
                c = {**json.loads(json.dumps(cur)), key: False}
                if _seq_bad(c):
                    cur, changed = c, True
        n = len(cur["inst"]["customers"])
        if n > 1 and time.time() < deadline and cur.get("start") != "state0":
            c = json.loads(json.dumps(cur))
            c["inst"]["customers"].pop()  # ids stay 1..n-1
            if _seq_bad(c):
                o2 = run_seq(c)
                c["plan"] = c["plan"][:max(1, len(o2["steps"]))]
                cur, changed = c, True
    return cur


def replay(obj):
    from harness.core import use_repo

    use_repo()
    kind = obj.get("kind")
    if kind == "vrp_seq" and "inst" in obj:
        case = {**obj, "weights": obj.get("weights", dict(DEFAULT_W)), "seed": obj.get("seed", 0)}
        out = run_seq(case)
        print("instance:", json.dumps(case["inst"]))
        start = case.get("start", "from_problem")
        print({"from_problem": "state = VRPState.from_problem(customers, vehicles)",
               "hand": "state = VRPState(customers=..., vehicles=..., routes=[[],..], arrival_times=[[],..], unassigned={all ids})  # no _dist",
               "state0": f"state = VRPState(customers=..., vehicles=..., routes={case.get('state0', {}).get('routes')}, arrival_times=<recomputed>, "
                         f"unassigned={case.get('state0', {}).get('unassigned')})  # no _dist"}[start]
              + f"; rng = Random({case['seed']}); state re-built with the dataclass constructor before steps {case.get('rebuild_at') or []}; operators:")
        for s in out["steps"]:
            print(f"  {s['op']}{tuple(s['args'])}: routes {_short(s['pre']['routes'])} unassigned {_short(s['pre']['unassigned'])} -> "
                  + (f"routes {_short(s['post']['routes'])} unassigned {_short(s['post']['unassigned'])} arrival_times {_short(s['post']['arrivals'])} objective {s.get('obj')}"
                     if s["post"] else "no result"))
        print("oracle verdict:", out["bad"] or "ok")
        return 1 if out["bad"] else 0
    if kind == "vrp_solve" and "inst" in obj:
        case = {**obj, "weights": obj.get("weights", dict(DEFAULT_W)), "seed": obj.get("seed", 0),
                "max_iter": obj.get("max_iter", 25), "max_no_improve": obj.get("max_no_improve", 500)}
        out = run_solve(case)
        print("instance:", json.dumps(case["inst"]))
        print(f"solve_vrptw(customers [{case.get('container', 'list')} of {case.get('cust_forms') or 'Customer objects'}], vehicles "
              f"[{case.get('vehicles_form', 'list')}], depot, weights={case['weights']}, max_iter={case['max_iter']}, "
              f"max_no_improve={case['max_no_improve']}, seed={case['seed']}, on_progress={case.get('on_progress')})")
        print("result:", out["result"])
        print("oracle verdict:", out["bad"] or "ok")
        return 1 if out["bad"] else 0
    print("replay names an unchecked obligation:", obj.get("unchecked") or obj.get("what"))
    return 1


def _corpus():
    out = []
    d = VERIF / "corpus" / "C18"
    if d.exists():
        for f in sorted(d.glob("vrp_*.json")):
            o = json.loads(f.read_text())
            if o.get("kind") in ("vrp_seq", "vrp_solve"):
                out.append(o)
    return out


# ---------------------------------------------------------------- the check
def _seq_nontrivial(out):
    """a removal that removed something was followed by an insertion that placed something, and some state had a
    multi-vehicle customer on >= 2 routes or left unassigned"""
    removed = placed_after = False
    for s in out["steps"]:
        if s["post"] is None:
            continue
        if s["op"] in REMOVALS and set(s["post"]["unassigned"]) - set(s["pre"]["unassigned"]):
            removed = True
        if s["op"] in INSERTIONS and removed and set(s["pre"]["unassigned"]) - set(s["post"]["unassigned"]):
            placed_after = True
    return removed and placed_after


SEQ_EVENTS = [
    "insertion_cost: arrival re-derived (arrival list shorter than pos)", "insertion_cost: reads stale arrival times",
    "insertion_cost: capacity reject", "insertion_cost: time-window reject", "regret: fewer than k options (regret 10000)",
    "insertion: customer without feasible position", "sync_removal: falls back to random_removal", "sync_removal: target + neighbours",
    "worst_removal: pops a customer already selected (visited by two vehicles)", "related_removal: runs out of candidates",
    "route_removal: n_routes > non-empty routes", "removal: nothing assigned", "removal: strips a customer from two routes",
    "sync_aware_insertion: multi-vehicle customer stays unassigned", "sync_aware_insertion: multi-vehicle customer placed on all its vehicles",
    "greedy/regret: multi-vehicle customer placed on one route", "state: late arrivals", "state: overloaded vehicle",
    "state: multi-vehicle customer misses vehicles", "state: multi-vehicle customer visited at different times",
    "state: arrival exactly at tw_end",
]
SOLVE_EVENTS = ["alns: new best", "alns: better than current, not best", "alns: worse candidate accepted", "alns: equal candidate accepted",
                "alns: candidate rejected", "alns: operator weights updated (iteration 100)", "alns: stops on max_no_improve",
                "alns: stopped by on_progress"]


def run_part(ctx: Ctx):
    big = ctx.tier == "thorough"
    ctx.rule += (" | vrp: 0-7 customers (..9 thorough) on integer-distance layouts (collinear, 3-4-5 grids, co-located), time windows, "
                 "service times, demands 0-6, 0-4 vehicles (ids as labels), capacities 1/3/8/20/inf, 30 % customers needing 2 (5 %: 3) "
                 "vehicles, numbers fed as int / float / mixed; families: base (30 random exported operators from the solver's initial "
                 "state, judged after every operator), corners (degree / n_routes / k sweeps incl. 0 and > size), hand (states built or "
                 "re-built with the VRPState dataclass, no distance matrix; twin run from from_problem), state0 (random consistent "
                 "hand-built states incl. overloaded / late ones), scaled (lengths x 2^20..2^36, demands x 2^31..2^40), real (decimal "
                 "geometry, tolerance 1e-9, no Coq), size17/70/400 (line instances, one route with 2/3 of the customers, fresh int objects for ids); solve_vrptw with max_iter "
                 "0..40 (sweep 0..20, 99/100/101/205), call forms (tuples of length 3..8, tuple/list, vehicles int/list/tuple), "
                 "on_progress, repeated calls; non-trivial = a removal that removed customers is followed by an insertion that places "
                 "some (sequence) / at least one ALNS iteration ran (solve)")
    rng = ctx.rng
    corpus = _corpus()
    seq_cases = [c for c in corpus if c["kind"] == "vrp_seq"] + [json.loads(json.dumps(c)) for c in FIXED]
    solve_cases = [c for c in corpus if c["kind"] == "vrp_solve"]
    for family, q, t in (("base", 60, 1500), ("corners", 20, 500), ("hand", 25, 400), ("state0", 25, 400), ("scaled", 12, 200),
                         ("real", 12, 200)):
        seq_cases += [gen_seq_case(rng, big, family) for _ in range(ctx.budget(q, t))]
    for n, q, t in ((17, 2, 10), (70, 1, 4), (400, 1, 2)):
        seq_cases += [gen_big_seq_case(rng, n) for _ in range(ctx.budget(q, t))]
    seq_cases += [gen_seq_case(rng, big, "extreme") for _ in range(ctx.budget(30, 400))]   # class X
    seq_cases += [gen_a2_case(rng, big) for _ in range(ctx.budget(20, 300))]                # class A2
    seq_cases = gen_work_seq_cases(rng, big) + seq_cases                                    # class W (slowest first)
    for family, q, t in (("base", 40, 800), ("forms", 15, 150), ("progress", 10, 100), ("scaled", 8, 100), ("real", 6, 60)):
        solve_cases += [gen_solve_case(rng, big, family) for _ in range(ctx.budget(q, t))]
    solve_cases += gen_sweep_solves(rng, 20 if not big else 40)
    solve_cases += [gen_solve_case(rng, big, "extreme") for _ in range(ctx.budget(12, 150))]
    for _ in range(ctx.budget(10, 100)):
        c = gen_solve_case(rng, big, "base")
        c.update({"family": "inplace", "inplace": True, "coq": False, "max_iter": rng.choice([3, 10, 25])})
        c.pop("twice", None)
        solve_cases.append(c)
    solve_cases = gen_work_solves(rng, big) + solve_cases
    spec_budget = ctx.budget(1200, 20000)  # implementation states handed to the Coq checker spec_chk

    seq_outs = pmap(run_seq, seq_cases)
    solve_outs = pmap(run_solve, solve_cases)

    # POLICY_X: cases outside the quantifier are observation-only - counted, then dropped before any judging
    def observe(cases, outs, label):
        keep_c, keep_o = [], []
        for c, o in zip(cases, outs):
            if outside_quantifier(c):
                outcome = "ok" if not o["bad"] else ("hang" if "hang" in o["bad"] else ("raises" if "implementation exc" in o["bad"] else "other answer"))
                if "raises on inf / NaN input" in (o.get("events") or ()):
                    outcome = "raises"
                ctx.count("observation_only", f"{label}: {outcome}")
            else:
                keep_c.append(c)
                keep_o.append(o)
        return keep_c, keep_o

    seq_cases, seq_outs = observe(seq_cases, seq_outs, "operator sequence on inf / NaN / >= 2^53 data")
    solve_cases, solve_outs = observe(solve_cases, solve_outs, "solve_vrptw on inf / NaN / >= 2^53 data")

    # class H: rare internal events - count them, and look for the ones not seen yet in families that favour them
    seen = set()
    for o in seq_outs + solve_outs:
        seen |= set(o.get("events") or ())
    for attempt in range(3):
        miss_seq = [e for e in SEQ_EVENTS if e not in seen]
        miss_solve = [e for e in SOLVE_EVENTS if e not in seen]
        if not miss_seq and not miss_solve:
            break
        if miss_seq:
            extra = [gen_seq_case(rng, big, rng.choice(["corners", "state0", "hand"])) for _ in range(120)]
            for c, o in zip(extra, pmap(run_seq, extra)):
                if o["bad"] or (set(o.get("events") or ()) - seen):
                    seq_cases.append(c)
                    seq_outs.append(o)
                    seen |= set(o.get("events") or ())
        if miss_solve:
            extra = [gen_solve_case(rng, big, rng.choice(["base", "progress"])) for _ in range(60)]
            for c, o in zip(extra, pmap(run_solve, extra)):
                if o["bad"] or (set(o.get("events") or ()) - seen):
                    solve_cases.append(c)
                    solve_outs.append(o)
                    seen |= set(o.get("events") or ())
    for e in SEQ_EVENTS + SOLVE_EVENTS:
        if e not in seen:
            ctx.count("vrp_event_NOT_SEEN", e)

    trace_terms, trace_meta, spec_terms, spec_meta, ftrace_terms, spec_cands = [], [], [], [], [], []
    loop_max = {}

    def loop(name, k):
        loop_max[name] = max(loop_max.get(name, 0), k)
    n_viol = 0
    for case, out in zip(seq_cases, seq_outs):
        ctx.evaluations += len(out["steps"])
        inst = case["inst"]
        ctx.count("vrp_family", case.get("family", "corpus/fixed"))
        ctx.count("vrp_customers", len(inst["customers"]))
        ctx.count("vrp_vehicles", len(inst["caps"]))
        ctx.count("vrp_multi_customers", sum(1 for c in inst["customers"] if c["required_vehicles"] > 1))
        ctx.count("vrp_numbers", "real" if inst.get("real") else inst.get("num", "int"))
        ctx.count("vrp_start", case.get("start", "from_problem") + ("+rebuilt" if case.get("rebuild_at") else ""))
        for cap in set(map(str, inst["caps"])):
            ctx.count("vrp_capacity", cap if len(cap) < 6 else "huge")
        for e in out.get("events") or ():
            ctx.count("vrp_event", e)
        loop("vehicles", len(inst["caps"]))
        for s in out["steps"]:
            if s["post"] is None:
                continue
            loop("stops on one route (arrival recomputation, lateness, removal filters, worst_removal ranking)",
                 max([len(r) for r in s["pre"]["routes"]] + [0]))
            if s["op"] in INSERTIONS:
                placed = len(set(s["pre"]["unassigned"]) - set(s["post"]["unassigned"]))
                loop("customers placed by one insertion call (greedy loop / regret passes)", placed)
                if s["pre"]["unassigned"]:
                    loop("insertion positions scanned for one customer", sum(len(r) + 1 for r in s["pre"]["routes"]))
            else:
                loop("customers removed by one removal call", len(set(s["post"]["unassigned"]) - set(s["pre"]["unassigned"])))
            ctx.count("vrp_op", s["op"])
            ctx.count("vrp_op_args", f"{s['op']}{tuple(s['args'])}")
            if s["op"] in REMOVALS:
                ctx.count("vrp_removed_per_removal", min(8, len(set(s["post"]["unassigned"]) - set(s["pre"]["unassigned"]))))
            else:
                ctx.count("vrp_placed_per_insertion", min(8, len(set(s["pre"]["unassigned"]) - set(s["post"]["unassigned"]))))
            multi_on = [sum(1 for r in s["post"]["routes"] if c["id"] in r) for c in inst["customers"] if c["required_vehicles"] > 1]
            ctx.count("vrp_state_multi_on_routes", "some on >= 2 routes" if any(k >= 2 for k in multi_on)
                      else ("some on 1 route" if any(k == 1 for k in multi_on) else "none routed"))
            ctx.count("vrp_state_unassigned", min(8, len(s["post"]["unassigned"])))
        if out["bad"]:
            n_viol += 1
            small = shrink_seq(case) if n_viol <= 2 and len(inst["customers"]) <= 20 else \
                {**case, "plan": case["plan"][:max(1, len(out["steps"]))]}
            sout = run_seq(small)
            ctx.violation(f"vrp operator sequence: {sout['bad'] or out['bad']}",
                          {**small, "impl_steps": [{k: s[k] for k in ("op", "args", "pre", "post")} for s in sout["steps"][-3:]]
                           if len(inst["customers"]) <= 20 else []})
        if _seq_nontrivial(out):
            ctx.nontriv(json.dumps(case, sort_keys=True))
        if len(inst["customers"]) <= 9:
            ctx.sample({"kind": "vrp_seq", "inst": inst, "seed": case["seed"], "start": case.get("start", "from_problem"),
                        "steps": [{"op": s["op"], "args": s["args"], "post": s["post"]} for s in out["steps"][:3]]}, 5)
        good = [s for s in out["steps"] if s["post"] is not None]
        if out["init"] is None or inst.get("real") or not case.get("coq", True) or not all(snap_ok(s["post"]) for s in good) \
                or not snap_ok(out["init"]):
            continue
        trace_terms.append((cbool(case.get("start") != "state0"), c_trace_case(case, out)))
        ftrace_terms.append(c_ftrace_case(case, out))
        trace_meta.append((case, out))
        ctx.traces_validated += 1
        spec_cands += [(case, s) for s in good if isinstance(s.get("obj"), int)]

    for case, st in spec_cands[::max(1, len(spec_cands) // spec_budget)][:spec_budget]:  # evenly over all families
        spec_terms.append(c_spec_case(case["inst"], case["weights"], st["post"], st["obj"]))
        spec_meta.append((case, st))
    solve_terms, solve_meta = [], []
    for case, out in zip(solve_cases, solve_outs):
        ctx.evaluations += 1
        ctx.count("vrp_solve_family", case.get("family", "corpus"))
        ctx.count("vrp_solve_max_iter", case["max_iter"])
        ctx.count("vrp_solve_max_no_improve", case["max_no_improve"])
        for e in out.get("events") or ():
            ctx.count("vrp_event", e)
        if case.get("cust_forms"):
            ctx.count("vrp_solve_forms", f"{case.get('container')} / vehicles {case.get('vehicles_form')} / depot {case.get('depot_form')}")
        if out["result"]:
            it = out["result"]["iterations"]
            ctx.count("vrp_solve_iterations", it if it <= 3 else ("4-10" if it <= 10 else ("11-25" if it <= 25 else "26+")))
            ctx.count("vrp_solve_unassigned", len(out["result"]["state"]["unassigned"]))
            ctx.count("vrp_solve_accepts", sum(out["acc"]))
        if out["result"]:
            loop("alns iterations in one solve", out["result"]["iterations"])
        if out["bad"]:
            ctx.violation(f"vrp: {out['bad']}", {**case, "impl": out["result"]})
        if out["result"] is None or not case.get("coq", True) and not out.get("shape_ok"):
            continue
        if len(out["records"]) >= 3:
            ctx.nontriv(json.dumps(case, sort_keys=True))
        if not out.get("shape_ok"):
            ctx.violation("solve_vrptw does not call its operators as greedy_insertion, then (destroy, repair) pairs - "
                          "the recorded call sequence cannot be replayed through the model",
                          {**case, "calls": [r["op"] for r in out["records"]]}, no_input=True)
            continue
        if case["inst"].get("real") or not case.get("coq", True) or not (snap_ok(out["result"]["state"]) and isinstance(out["result"]["objective"], int)
                                            and all(snap_ok(r["post"]) for r in out["records"])):
            continue
        solve_terms.append(c_solve_case(case, out))
        solve_meta.append((case, out))
        ctx.traces_validated += 1
        spec_terms.append(c_spec_case(case["inst"], case["weights"], out["result"]["state"], out["result"]["objective"]))
        spec_meta.append((case, {"op": "solve_vrptw", "post": out["result"]["state"], "obj": out["result"]["objective"]}))

    # both models on every sequence in one lemma per shard (start = from_problem / empty hand-built state: the model's
    # init_state; start = a given hand-built state: it must satisfy the Coq invariant checker); on a failure the two models
    # are re-checked separately on the failing sequences to tell a bookkeeping difference from a choice difference
    start_chk = ("(if fst c then st_eqb (init_state (fst (fst (snd c)))) (snd (fst (snd c))) "
                 "else spec_check (fst (fst (snd c))) (snd (fst (snd c))))")
    both = [f"({flag}, ({t}, {f}))" for (flag, t), f in zip(trace_terms, ftrace_terms)]
    f_models = ctx.coq_check("vrp_models", IMPORTS, "bool * (trace_case * ftrace_case)",
                             "fun c0 : bool * (trace_case * ftrace_case) => (let c : bool * trace_case := (fst c0, fst (snd c0)) in " + start_chk + ") && trace_chk (fst (snd c0)) && ftrace_chk (snd (snd c0))",
                             both, shard=24)
    f_trace, f_choice = [], []
    if f_models:
        sub = f_models[:40]
        ft = ctx.coq_check("vrp_trace", IMPORTS, "bool * trace_case", "fun c : bool * trace_case => " + start_chk + " && trace_chk (snd c)",
                           [f"({trace_terms[i][0]}, {trace_terms[i][1]})" for i in sub], shard=10)
        fc = ctx.coq_check("vrp_choice", IMPORTS, "ftrace_case", "ftrace_chk", [ftrace_terms[i] for i in sub], shard=10)
        f_trace = [sub[i] for i in ft]
        f_choice = [sub[i] for i in fc]
    f_solve = ctx.coq_check("vrp_solve", IMPORTS, "solve_case", "solve_chk", solve_terms, shard=25)
    f_spec = ctx.coq_check("vrp_spec", IMPORTS, "spec_case", "spec_chk", spec_terms, shard=300 if len(spec_terms) <= 2400 else 400)
    for i in f_spec:
        case, s = spec_meta[i]
        ctx.violation("vrp: implementation state rejected by the Coq checker spec_chk (sound w.r.t. vrp_spec) although the "
                      "Python oracle accepts it", {**case, "state": s["post"], "objective": s["obj"], "after": s["op"],
                                                   "lemma": "Cases/C18/vrp_spec_*.v corr"}, no_input=True)

    disagree = [("trace", trace_meta[i]) for i in f_trace] + [("solve", solve_meta[i]) for i in f_solve] + \
        [("choice", trace_meta[i]) for i in f_choice if i not in set(f_trace)]
    if (disagree or ctx.broken) and not any(not v["no_input"] for v in ctx.violations):
        found = False
        pool = [gen_seq_case(ctx.rng, True, ctx.rng.choice(["base", "corners", "hand", "state0", "scaled"])) for _ in range(3000)]
        for kind, (case, _o) in disagree[:10]:
            if kind in ("trace", "choice"):
                for _ in range(60):  # neighbours: same instance, other seeds / plans
                    pool.append({**json.loads(json.dumps(case)), "seed": ctx.rng.randrange(10**6),
                                 "plan": gen_plan(ctx.rng, 30, corners=True, first=case.get("start") != "state0")})
        for case, out in zip(pool, pmap(run_seq, pool)):
            if out["bad"]:
                small = shrink_seq(case)
                sout = run_seq(small)
                ctx.violation(f"vrp operator sequence: {sout['bad'] or out['bad']}",
                              {**small, "impl_steps": [{k: s[k] for k in ("op", "args", "pre", "post")} for s in sout["steps"][-3:]]})
                found = True
                break
        if not found:
            spool = [gen_solve_case(ctx.rng, True, ctx.rng.choice(["base", "forms", "progress", "scaled"])) for _ in range(1500)]
            for case, out in zip(spool, pmap(run_solve, spool)):
                if out["bad"]:
                    ctx.violation(f"vrp: {out['bad']}", {**case, "impl": out["result"]})
                    found = True
                    break
        if not found:
            for kind, (case, out) in disagree[:1]:
                if kind == "choice":
                    k_bad, model = _first_disagreeing_step(ctx, case, out, faithful=True)
                    ctx.violation("correspondence lemma vrp_choice: the choice-computing model SV.C18.VrpChoice.apply_fop and the "
                                  "implementation's operator differ (which customers / positions are chosen: cost ranking, feasibility "
                                  "test, tie-break), while the bookkeeping model (vrp_trace) still agrees",
                                  {**case, "step": k_bad, "impl_step": coq_steps(out)[k_bad] if k_bad is not None else None,
                                   "model": model, "lemma": "Cases/C18/vrp_choice_*.v corr"}, no_input=True)
                elif kind == "trace":
                    k_bad, model = _first_disagreeing_step(ctx, case, out)
                    ctx.violation("correspondence lemma vrp_trace: model SV.C18.Vrp.apply_op and the implementation's operator differ "
                                  "(observable: routes, unassigned, arrival_times after the operator; or a choice fails the model's guard)",
                                  {**case, "step": k_bad, "impl_step": coq_steps(out)[k_bad] if k_bad is not None else None,
                                   "model": model, "lemma": "Cases/C18/vrp_trace_*.v corr"}, no_input=True)
                else:
                    model = ctx.coq_eval("vrp_solve_show", IMPORTS, _solve_show_term(case, out))
                    ctx.violation("correspondence lemma vrp_solve: model SV.C18.Vrp.solve and solve_vrptw differ (observable: result "
                                  "state, objective)", {**case, "impl": out["result"], "model": model[-1500:],
                                                        "lemma": "Cases/C18/vrp_solve_*.v corr"}, no_input=True)

    ctx.extra["vrp_loop_max"] = loop_max  # class W: the largest iteration count reached per loop in this run
    for name, k in loop_max.items():
        for thr in (2**7, 2**10, 2**11, 2**12, 10**4, 10**5):
            if k >= thr:
                ctx.count("vrp_loop_crossed", f"{name} >= {thr}")
    ctx.notes += [
        "vrp: instances have integer coordinates with integer pairwise Euclidean distances (checked on every run: VRPState._dist "
        "equals the exact integer matrix, i.e. float hypot is exact on these), integer time windows / service times / demands / "
        "weights, so every float operation of vrp.py is exact and the model computes in Z; rounding is outside the theorems",
        "vrp: customer ids are 1..n in list order (vrp.py indexes `customers` by id; the docstring example does the same)",
        "vrp model 1 (C18/Vrp.v, lemma vrp_trace, theorems C18_vrp_inv*): ALL choices of the operators are oracle arguments recorded "
        "from the real run (rng answers via a delegating proxy around random.Random, insert(pos, cid) calls via a VRPState subclass "
        "whose copy() hands out logging lists, removed sets by before/after difference); the model checks the guards of the choices "
        "and models what is done with them",
        "vrp model 2 (C18/VrpChoice.v, lemma vrp_choice, theorems C18_vrp_inv_computed_choices, C18_vrp_*_total): the choices are "
        "computed as in vrp.py (worst_removal ranking, related/sync nearest neighbours, _insertion_cost incl. its reading of stale "
        "arrival times inside sync_aware_insertion, cheapest position, regret-k, vehicle selection); oracle = rng.sample/choice/shuffle "
        "answers, the candidate index selected by rng.random()**2 in worst_removal (computed by the harness from the logged draw with "
        "the code's formula), iteration orders of the set `unassigned` (logged by a set subclass), n_remove of related_removal "
        "(taken as the number of customers actually removed)",
        "vrp: sync_assignments is not modelled (nothing reads it); on_progress only cuts the list of iterations the model replays",
        "vrp round-3 families: W - one route with 10^4 stops (removal operators, scoring), 2^12 insertion positions for one (two-vehicle) "
        "customer, 10^4 vehicles, 140 customers inserted by one greedy / regret call, ALNS loops of 130 .. 10^4 iterations whose iteration "
        "count is replayed exactly from the recorded scores (max_iter / max_no_improve) - all judged by the Python oracle, not by Coq; "
        "A2 - the caller edits the state object (or the customers list between two solves) in place; the next call must agree with the "
        "call on a deep copy / on freshly built objects and with the oracle for the edited instance; X - judged: -0.0, denormals, 1e-300, integral floats vs ints, "
        "zero / fractional weights (bookkeeping exact, arrival times / objective by the same float operations in the documented order); "
        "OBSERVATION-ONLY (outside the quantifier, POLICY_X a-c; histogram observation_only; never a violation): inf / NaN entries, finite "
        "values >= 2^53 incl. coordinates near 1e308 whose insertion costs overflow to inf (on those sync_aware_insertion / solve_vrptw "
        "may raise ValueError 'min() iterable argument is empty' or leave any answer) and +-2^60",
        "vrp round-2 families: states built / re-built with the public VRPState dataclass (no _dist) must behave like from_problem "
        "states (twin run) and obey the same oracle; operators must not modify the state they are given nor any state returned "
        "earlier; same call twice gives the same answer; VRPState.total_distance / time_window_violation / capacity_violation / "
        "sync_violation / vehicles_used / is_feasible are compared with the oracle's parts on every state; scaled instances keep all "
        "quantities exact integers < 2^52 (generator rejects instances on which Python's own hypot is inexact); decimal-geometry "
        "instances are judged with relative tolerance 1e-9 by the Python oracle only; route_removal(n_routes=0) is the identity and is "
        "skipped in the Coq chains (the models require a non-empty rng.sample answer)",
        "vrp: alns acceptance answers are recovered from object identity (the next destroy operator received this candidate)",
    ]


def _first_disagreeing_step(ctx, case, out, faithful=False):
    good = coq_steps(out)
    prev = out["init"]
    for k, s in enumerate(good):
        ap = f"apply_fop {c_inst(case['inst'])} ({c_fop(s)})" if faithful else f"apply_op {c_inst(case['inst'])} ({c_op(s)})"
        term = f"match {ap} {c_state(prev)} with Some s => (st_eqb s {c_state(s['post'])}, Some s) | None => (false, None) end"
        txt = ctx.coq_eval(f"vrp_show_{k}", IMPORTS, term)
        if "(true," not in txt.replace("\n", " "):
            return k, txt[-1500:]
        prev = s["post"]
    return None, ""


def _solve_show_term(case, out):
    recs = out["records"]
    n_it = (len(recs) - 1) // 2
    its = clist(range(n_it), lambda i: f"({c_op(recs[1 + 2 * i])}, {c_op(recs[2 + 2 * i])}, {cbool(out['acc'][i])})")
    return f"solve {c_weights(case['weights'])} {c_inst(case['inst'])} {c_evs(recs[0]['oracle']['evs'])} {its}"
